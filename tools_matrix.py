#!/usr/bin/env python3
"""Cross matrix: every seeded mutant x every quick check, run entirely outside /repo and /verif
(scratch worktree /tmp/wt-mut + harness copy /tmp/hx), so it can run while other work goes on.
Writes /verif/seeded/matrix.json. Auxiliary information only (evidence comes from ./check on /repo)."""
import subprocess, json, os, glob, sys, time, shutil
def sh(c): return subprocess.run(c, shell=True, capture_output=True, text=True)
WT, HX = '/tmp/wt-mut', '/tmp/hx'
only = sys.argv[1:]
sh(f'git -C /repo worktree remove --force {WT}; git -C /repo worktree prune')
assert sh(f'git -C /repo worktree add --detach {WT} HEAD').returncode == 0
shutil.rmtree(HX, ignore_errors=True)
os.makedirs(HX)
sh(f'cp -r /verif/harness/src /verif/harness/Cargo.toml /verif/harness/Cargo.lock {HX}/')
s = open(f'{HX}/Cargo.toml').read().replace('path = "/repo"', f'path = "{WT}"'); open(f'{HX}/Cargo.toml', 'w').write(s)
os.makedirs(f'{HX}/.cargo'); open(f'{HX}/.cargo/config.toml', 'w').write(f'[net]\noffline = true\n[build]\ntarget-dir = "{HX}/target"\n')
checks = os.environ.get('MATRIX_CHECKS', '').split() or [f'C{i:02d}' for i in range(1, 21)]
path = os.environ.get('MATRIX_OUT', '/verif/seeded/matrix.json')
matrix = json.load(open(path)) if os.path.exists(path) else {}
muts = sorted(d for d in os.listdir('/verif/seeded') if os.path.isdir(f'/verif/seeded/{d}'))
for m in muts:
    if only and m not in only: continue
    if m in matrix: continue
    sh(f'git -C {WT} checkout -- .')
    a = sh(f'git -C {WT} apply /verif/seeded/{m}/patch.diff'); assert a.returncode == 0, (m, a.stderr)
    b = sh(f'cd {HX} && nice -n 10 cargo build --release --offline 2>&1 | tail -3')
    row = {}
    for c in checks:
        t0 = time.time()
        r = sh(f'cd {HX} && AVTMC_OUT={HX}/out nice -n 10 {HX}/target/release/avtmc check {c} quick')
        v = [l for l in r.stdout.splitlines() if l.startswith('VIOLATION')]
        props = sorted(set(l.split()[1].split('=')[1] for l in v))
        row[c] = {'exit': r.returncode, 'violation_properties': props, 'wall_s': round(time.time() - t0, 1)}
        fs = sorted(glob.glob(f'{HX}/out/replays/*.json'))
        if fs:
            d = json.load(open(fs[0]))
            row[c]['first'] = {'part': d.get('part'), 'observed': d.get('observed'), 'ops': [o.get('text') for o in d.get('ops', [])], 'config': d.get('config')}
        sh(f'rm -rf {HX}/out/replays')
    matrix[m] = row
    json.dump(matrix, open(path, 'w'), indent=1)
    print(m, {c: (row[c]['exit'], row[c]['violation_properties']) for c in checks if row[c]['exit'] != 0}, flush=True)
sh(f'git -C {WT} checkout -- .'); sh(f'git -C /repo worktree remove --force {WT}'); shutil.rmtree(HX, ignore_errors=True)
