//! The probe battery: short fixed inputs that make hidden state components
//! visible in the public observation.

pub fn battery(cols: usize, rows: usize) -> Vec<String> {
    let mut v: Vec<String> = vec![];
    let many = "xyz".repeat(cols / 3 + 2);
    let lf_n = "\n".repeat(rows + 1);
    let ri_n = "\x1bM".repeat(rows + 1);
    let mut tabs = String::from("\r");
    for _ in 0..(cols / 4 + 2) {
        tabs.push_str("\tT");
    }
    let fixed: &[&str] = &[
        // pen, insert mode, auto-wrap, pending wrap, charset
        "x",
        "xy",
        "q",
        "\x0fq",
        "\x0eq",
        "\x1b[1;1Hxy",
        "\x1b[99;99Hx",
        "\x1b[99;99Hxy",
        "\x1b[1;99Hxy",
        "\x1b[99;1Hx",
        // relative moves (margins, pending)
        "\x1b[99Ax",
        "\x1b[99Bx",
        "\x08x",
        "\x1b[Cx",
        "\n x",
        "\x1bMx",
        // origin mode / margins measurement
        "\x1b[?6h\x1b[1;1Hx",
        "\x1b[?6h\x1b[99;1Hx",
        "\x1b[?6l\x1b[1;1H\x1b[99Bx",
        "\x1b[?6l\x1b[99;1H\x1b[99Ax",
        // tabs
        "\x1b[99C\x1b[Zx",
        "\x1b[99C\x1b[2Zx",
        "\r\tx",
        // editing with the current pen
        "\x1b[@",
        "\x1b[K",
        "\x1b[1K",
        "\x1b[X",
        // saved context of the showing screen
        "\x1b8x",
        "\x1b8\x1b[1;1Hx",
        "\x1b8\x1b[99;1Hx",
        "\x1b8\x1b[99Cxy",
        "\x1b[ux",
        // the other screen and its saved context
        "\x1b[?1047h\x1b8x",
        "\x1b[?1047h\x1b8\x1b[99;1Hx\x1b[99Cxy",
        "\x1b[?1047lx",
        "\x1b[?1047l\x1b8x",
        "\x1b[?1047l\x1b8\x1b[99;1Hx\x1b[99Cxy",
        "\x1b[?1049lx",
        "\x1b[?1049hx\x1b[?1049lx",
        "\x1b[?47l\x1b[1;1Hx",
        // modes reported directly
        "\x1b[?25h",
        "\x1b[?25l",
        "\x1b[?1l",
        // completions of interrupted sequences
        "m",
        "A",
        ";5H",
        "\x07",
        "\x1b\\",
        "\u{9c}x",
        "0",
        "1;1Hx",
        "?25h",
        "5",
        "$q",
        "h",
        "\x18x",
        // the same completions followed by a visible character (is the parser back in ground?)
        "\x07x",
        "\x1b\\x",
        "mx",
        "Ax",
        ";5Hx",
        "0x",
        "?25hx",
        "$qx",
        "p",
        "px",
        "hx",
        "\x1b[1;1Hx",
        // soft reset keeps some state
        "\x1b[!px\x1b8x",
    ];
    v.extend(fixed.iter().map(|s| s.to_string()));
    v.push(many);
    v.push(lf_n.clone() + "x");
    v.push(ri_n + "x");
    v.push(tabs);
    v.push(format!("\x1b[1;1H{}x", lf_n));
    v
}

/// does this input leave the alternate screen (syntactically)?
pub fn leaves_alt(s: &str) -> bool {
    s.contains("?1047l") || s.contains("?1049l") || s.contains("?47l")
}
