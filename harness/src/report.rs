//! Glue shared by all checks: running BFS parts, violations -> replay files,
//! known findings, evidence.

use crate::engine::{merge_outs, Bfs, BfsOut, Caps, Found, System};
use crate::ops::{esc, Cfg, Op};
use serde_json::{json, Map, Value};
use std::collections::BTreeMap;
use std::time::{Duration, Instant};

#[derive(Clone, Copy, Debug, PartialEq, Eq)]
pub enum Tier {
    Quick,
    Thorough,
}

impl Tier {
    pub fn name(&self) -> &'static str {
        match self {
            Tier::Quick => "quick",
            Tier::Thorough => "thorough",
        }
    }
    pub fn pick<T>(&self, q: T, t: T) -> T {
        match self {
            Tier::Quick => q,
            Tier::Thorough => t,
        }
    }
}

pub struct Ctx {
    pub id: String,
    pub tier: Tier,
    pub seed: i64,
    pub start: Instant,
    pub known: KnownFindings,
    pub replay_dir: String,
}

pub const VERIF: &str = "/verif";

/// where evidence and replay files are written (AVTMC_OUT overrides, for side runs
/// that must not touch the committed evidence)
pub fn out_dir() -> String {
    std::env::var("AVTMC_OUT").unwrap_or_else(|_| VERIF.to_string())
}

#[derive(Default, Clone)]
pub struct KnownFindings {
    /// finding id -> (property, description)
    pub open: BTreeMap<String, (String, String)>,
}

impl KnownFindings {
    pub fn load() -> KnownFindings {
        let mut k = KnownFindings::default();
        let path = format!("{}/known_findings.json", VERIF);
        if let Ok(s) = std::fs::read_to_string(&path) {
            let v: Value = serde_json::from_str(&s).expect("known_findings.json must parse");
            if let Some(a) = v.get("findings").and_then(|x| x.as_array()) {
                for f in a {
                    let id = f["id"].as_str().unwrap_or("").to_string();
                    let prop = f["property"].as_str().unwrap_or("").to_string();
                    let what = f["what"].as_str().unwrap_or("").to_string();
                    k.open.insert(id, (prop, what));
                }
            }
        }
        k
    }
    pub fn listed(&self, id: &str, property: &str) -> bool {
        self.open.get(id).map(|(p, _)| p == property).unwrap_or(false)
    }
}

#[derive(Default)]
pub struct Report {
    pub states: u64,
    pub transitions: u64,
    pub traces_validated: u64,
    pub evaluations: u64,
    pub distinct_nontrivial: u64,
    pub rule: String,
    pub samples: Vec<Value>,
    pub exhaustive: bool,
    pub caps_hit: Vec<String>,
    pub parts: Vec<Value>,
    pub counters: BTreeMap<String, u64>,
    pub assumptions: Vec<String>,
    pub violations: u64,
    pub known_hits: BTreeMap<String, (u64, String)>,
    pub extra: Map<String, Value>,
    pub replay_files: Vec<String>,
    pub harness_error: Option<String>,
}

impl Report {
    pub fn new() -> Report {
        Report {
            exhaustive: true,
            ..Default::default()
        }
    }
    pub fn count(&mut self, k: &str, n: u64) {
        *self.counters.entry(k.to_string()).or_insert(0) += n;
    }
}

pub fn cfg_json(c: &Cfg) -> Value {
    json!({"cols": c.cols, "rows": c.rows, "limit": c.limit})
}

pub fn cfg_from(v: &Value) -> Cfg {
    Cfg {
        cols: v["cols"].as_u64().unwrap() as usize,
        rows: v["rows"].as_u64().unwrap() as usize,
        limit: v["limit"].as_u64().map(|x| x as usize),
    }
}

fn next_replay_path(ctx: &Ctx) -> String {
    std::fs::create_dir_all(&ctx.replay_dir).ok();
    for k in 0..100000 {
        let p = format!("{}/{}-{}.json", ctx.replay_dir, ctx.id, k);
        if !std::path::Path::new(&p).exists() {
            return p;
        }
    }
    format!("{}/{}-overflow.json", ctx.replay_dir, ctx.id)
}

/// Write a replay file and print the VIOLATION line.
pub fn emit_violation(ctx: &Ctx, rep: &mut Report, property: &str, body: Value) {
    let path = next_replay_path(ctx);
    let mut b = body;
    b["property"] = json!(property);
    b["check"] = json!(ctx.id);
    b["tier"] = json!(ctx.tier.name());
    std::fs::write(&path, serde_json::to_string_pretty(&b).unwrap()).expect("write replay");
    println!("VIOLATION property={} replay={}", property, path);
    rep.violations += 1;
    rep.replay_files.push(path);
}

pub fn emit_known(ctx: &Ctx, rep: &mut Report, id: &str, n: u64, witness: &str) {
    let (prop, _) = ctx.known.open.get(id).cloned().unwrap_or_default();
    println!("KNOWN-FINDING: property={} {} {}", prop, id, witness);
    let e = rep
        .known_hits
        .entry(id.to_string())
        .or_insert((0, witness.to_string()));
    e.0 += n;
}

/// One BFS exploration unit of a check.
pub struct Part<'a, S: System> {
    pub name: &'a str,
    pub sys: &'a S,
    pub cfgs: Vec<Cfg>,
    pub alphabet: &'a (dyn Fn(&Cfg) -> Vec<Op> + Sync),
    pub depth: usize,
    /// wall-clock budget for the whole part
    pub seconds: f64,
    /// each transition compares a reference model / twin with the real code
    pub validated: bool,
    /// counter name whose value is the number of non-trivial distinct cases
    pub nontrivial: Option<&'a str>,
}

pub fn found_json(part: &str, alphabet: &[Op], f: &Found) -> Value {
    let ops: Vec<Value> = f
        .hist
        .iter()
        .map(|&i| {
            let op = &alphabet[i as usize];
            json!({"idx": i, "kind": format!("{:?}", op.kind), "abstract": format!("{:?}", op.cmd), "text": esc(&op.text)})
        })
        .collect();
    json!({
        "part": part,
        "config": cfg_json(&f.cfg),
        "ops": ops,
        "at_state": f.at_state,
        "oracle": f.v.oracle,
        "observed": f.v.detail,
    })
}

pub fn run_part<S: System>(ctx: &Ctx, rep: &mut Report, part: &Part<S>) -> Vec<(Cfg, BfsOut)> {
    let t0 = Instant::now();
    // A part's own budget, capped per tier so that a whole check stays within minutes
    // (quick) / a quarter of an hour or so (thorough) even on a loaded machine; a part that
    // hits the cap reports the depth it completed and `exhaustive:false`.
    // AVTMC_PART_SECONDS lifts the cap for a deliberately long run.
    let cap: f64 = std::env::var("AVTMC_PART_SECONDS").ok().and_then(|s| s.parse().ok()).unwrap_or(match ctx.tier {
        Tier::Quick => 60.0,
        Tier::Thorough => 300.0,
    });
    let deadline = t0 + Duration::from_secs_f64(part.seconds.min(cap));
    let mut total = BfsOut::default();
    let mut per_cfg = vec![];
    let mut outs = vec![];
    for (ci, cfg) in part.cfgs.iter().enumerate() {
        let alphabet = (part.alphabet)(cfg);
        let mut b = Bfs::new(part.sys, *cfg, &alphabet, part.depth, &ctx.id);
        if let Ok(n) = std::env::var("AVTMC_MAXV") {
            b.max_violations = n.parse().unwrap_or(5);
        }
        // every configuration gets a bounded share of what is left of the part's budget
        let now = Instant::now();
        let left = deadline.saturating_duration_since(now);
        // (up to three equal shares, so that one large configuration is not cut short
        // while small ones leave their time unused)
        let n_left = (part.cfgs.len() - ci) as f64;
        // (thorough parts run into their cap more often: a smaller multiple keeps the last
        // configurations of a part from being starved)
        let mult = if ctx.tier == Tier::Thorough { 1.5 } else { 3.0 };
        let share = left.mul_f64((mult / n_left).min(1.0));
        b.caps = Caps {
            deadline: Some(now + share),
            max_states: 60_000_000,
        };
        let o = b.run();
        // violations: confirm by identical re-execution, then emit
        for f in &o.violations {
            if f.v.oracle == "harness-panic" {
                rep.harness_error = Some(format!("panic inside the machinery in part {}: {} (history {:?})", part.name, f.v.detail, f.hist));
                continue;
            }
            let again = b.reexec(f);
            let same = again
                .iter()
                .any(|v| v.oracle == f.v.oracle && v.detail == f.v.detail);
            if !same {
                rep.harness_error = Some(format!(
                    "non-reproducible verdict in part {} ({}): {:?}",
                    part.name, f.v.oracle, f.hist
                ));
                continue;
            }
            emit_violation(ctx, rep, &f.v.property, found_json(part.name, &alphabet, f));
        }
        if o.violation_count as usize > o.violations.len() {
            rep.count("violations_not_written", o.violation_count - o.violations.len() as u64);
        }
        per_cfg.push(json!({
            "config": cfg.name(), "alphabet_size": alphabet.len(), "states": o.states, "transitions": o.transitions,
            "depth_completed": o.depth_completed, "fixpoint": o.fixpoint, "levels": o.level_sizes,
            "capped": o.capped, "pruned": o.pruned,
        }));
        outs.push((*cfg, BfsOut {
            states: o.states,
            transitions: o.transitions,
            depth_completed: o.depth_completed,
            fixpoint: o.fixpoint,
            all_states: vec![],
            ..Default::default()
        }));
        merge_outs(&mut total, o);
    }
    rep.states += total.states;
    rep.transitions += total.transitions;
    rep.evaluations += total.transitions;
    if part.validated {
        rep.traces_validated += total.transitions;
    }
    if let Some(k) = part.nontrivial {
        rep.distinct_nontrivial += total.counters.get(k).copied().unwrap_or(0);
    } else {
        rep.distinct_nontrivial += total.states;
    }
    if let Some(c) = &total.capped {
        rep.exhaustive = false;
        rep.caps_hit.push(format!("{}: {}", part.name, c));
    }
    for (k, v) in &total.counters {
        rep.count(&format!("{}.{}", part.name, k), *v);
    }
    for (id, (n, w)) in &total.known {
        let e = rep.known_hits.entry(id.clone()).or_insert((0, w.clone()));
        e.0 += n;
    }
    for s in total.samples.iter().take(4) {
        rep.samples.push(json!(s));
    }
    for n in &total.notes {
        println!("NOTE {}", n);
    }
    rep.parts.push(json!({
        "part": part.name, "depth": part.depth, "depth_completed": total.depth_completed,
        "states": total.states, "transitions": total.transitions, "pruned": total.pruned,
        "distinct_observations": total.distinct_obs,
        "violations": total.violation_count,
        "capped": total.capped, "wall_s": t0.elapsed().as_secs_f64(),
        "configs": per_cfg,
    }));
    println!(
        "part {}: depth {}/{} states {} transitions {} distinct_obs {} violations {} {} ({:.1}s)",
        part.name,
        total.depth_completed,
        part.depth,
        total.states,
        total.transitions,
        total.distinct_obs,
        total.violation_count,
        total.capped.clone().map(|c| format!("CAPPED: {}", c)).unwrap_or_default(),
        t0.elapsed().as_secs_f64()
    );
    outs
}

/// Replay a BFS violation file on a part. Returns true if it still fails.
pub fn replay_part<S: System>(ctx: &Ctx, part: &Part<S>, v: &Value) -> bool {
    let cfg = cfg_from(&v["config"]);
    let alphabet = (part.alphabet)(&cfg);
    let hist: Vec<u16> = v["ops"]
        .as_array()
        .unwrap()
        .iter()
        .map(|o| o["idx"].as_u64().unwrap() as u16)
        .collect();
    for (k, o) in v["ops"].as_array().unwrap().iter().enumerate() {
        let want = o["text"].as_str().unwrap_or("");
        let have = esc(&alphabet[hist[k] as usize].text);
        if want != have {
            println!(
                "replay: alphabet changed since the file was written (op {}: {} vs {})",
                k, want, have
            );
        }
    }
    let b = Bfs::new(part.sys, cfg, &alphabet, hist.len(), &ctx.id);
    println!("replaying on [{}]:", cfg.name());
    let vs = b.replay_judged(&hist, true);
    for x in &vs {
        println!("  {} / {}: {}", x.property, x.oracle, x.detail);
    }
    !vs.is_empty()
}

pub fn write_evidence(ctx: &Ctx, rep: &Report) {
    let mut cov = Map::new();
    cov.insert("states".into(), json!(rep.states.max(0)));
    cov.insert("transitions".into(), json!(rep.transitions));
    cov.insert(
        "traces_validated_against_impl".into(),
        json!(rep.traces_validated),
    );
    cov.insert("evaluations".into(), json!(rep.evaluations));
    cov.insert("distinct_nontrivial".into(), json!(rep.distinct_nontrivial));
    cov.insert("rule".into(), json!(rep.rule));
    let samples: Vec<Value> = if rep.samples.is_empty() {
        vec![json!("(no sample recorded)")]
    } else {
        rep.samples.iter().take(12).cloned().collect()
    };
    cov.insert("samples".into(), json!(samples));
    cov.insert("exhaustive".into(), json!(rep.exhaustive));
    cov.insert("caps_hit".into(), json!(rep.caps_hit));
    cov.insert("parts".into(), json!(rep.parts));
    cov.insert("counters".into(), json!(rep.counters));
    let kh: Map<String, Value> = rep
        .known_hits
        .iter()
        .map(|(k, (n, w))| (k.clone(), json!({"failing_states": n, "witness": w})))
        .collect();
    cov.insert("known_finding_hits".into(), Value::Object(kh));
    cov.insert("replay_files".into(), json!(rep.replay_files));
    for (k, v) in &rep.extra {
        cov.insert(k.clone(), v.clone());
    }
    let ev = json!({
        "property_id": ctx.id,
        "tier": ctx.tier.name(),
        "seed": ctx.seed,
        "level": "model_checking",
        "coverage": Value::Object(cov),
        "assumptions": rep.assumptions,
        "wall_s": ctx.start.elapsed().as_secs_f64(),
        "violations": rep.violations,
    });
    let dir = format!("{}/evidence", out_dir());
    std::fs::create_dir_all(&dir).ok();
    std::fs::write(
        format!("{}/{}.json", dir, ctx.id),
        serde_json::to_string_pretty(&ev).unwrap(),
    )
    .expect("write evidence");
}
