//! Logical lines (rows joined on soft-wrap marks) and the relational oracle
//! "a resize re-wraps but never alters" (C10, C16).

use crate::obs::{CellObs, Obs, PenObs};

#[derive(Clone, Debug, PartialEq, Eq)]
pub struct Logical {
    /// logical lines, trailing default blanks trimmed
    pub lines: Vec<Vec<CellObs>>,
    /// index of the cursor's logical line and offset inside it
    pub cur_line: usize,
    pub cur_off: usize,
}

pub fn is_default_cell(c: &CellObs) -> bool {
    c.0 == ' ' && c.1 == PenObs(0)
}

pub fn trim(mut v: Vec<CellObs>) -> Vec<CellObs> {
    while let Some(c) = v.last() {
        if is_default_cell(c) {
            v.pop();
        } else {
            break;
        }
    }
    v
}

/// `full` must be an `obs_full` observation (all of lines()).
pub fn logical(full: &Obs) -> Logical {
    let (cols, rows) = full.size;
    let n = full.rows.len();
    let view_start = n - rows;
    let cur_abs = view_start + full.cursor.1;
    let mut lines = vec![];
    let mut cur: Vec<CellObs> = vec![];
    let mut start_row = 0usize;
    let mut cur_line = 0;
    let mut cur_off = 0;
    for (i, r) in full.rows.iter().enumerate() {
        if cur.is_empty() && (i == 0 || !full.rows[i - 1].wrapped) {
            start_row = i;
        }
        if i == cur_abs {
            cur_line = lines.len();
            cur_off = (i - start_row) * cols + full.cursor.0;
        }
        cur.extend(r.cells.iter().cloned());
        if !r.wrapped {
            lines.push(trim(std::mem::take(&mut cur)));
        }
    }
    if !cur.is_empty() {
        lines.push(trim(cur));
    }
    Logical {
        lines,
        cur_line,
        cur_off,
    }
}

fn strip_trailing_empty(v: &[Vec<CellObs>]) -> &[Vec<CellObs>] {
    let mut n = v.len();
    while n > 0 && v[n - 1].is_empty() {
        n -= 1;
    }
    &v[..n]
}

fn show(l: &[CellObs]) -> String {
    l.iter().map(|c| c.0).collect()
}

/// The C10 relation between the logical content before and after a resize.
/// `cursor_clause`: also require the cursor to keep its logical place.
pub fn resize_relation(pre: &Logical, post: &Logical, cursor_clause: bool) -> Result<(), String> {
    let li = pre.cur_line;
    // 1. lines above the cursor's line unchanged
    for i in 0..li {
        match post.lines.get(i) {
            Some(l) if *l == pre.lines[i] => {}
            other => {
                return Err(format!(
                    "logical line {} above the cursor changed: {:?} -> {:?}",
                    i,
                    show(&pre.lines[i]),
                    other.map(|l| show(l))
                ))
            }
        }
    }
    if cursor_clause {
        // 2. cursor stays in its logical line, text before it intact, same character
        if post.cur_line != li {
            return Err(format!(
                "cursor moved from logical line {} to {}",
                li, post.cur_line
            ));
        }
        let empty = vec![];
        let pl = pre.lines.get(li).unwrap_or(&empty);
        let ql = post.lines.get(li).unwrap_or(&empty);
        let before = pre.cur_off.min(pl.len());
        let blank: CellObs = (' ', PenObs(0));
        for k in 0..before {
            // cells missing after trimming are default blanks
            if ql.get(k).unwrap_or(&blank) != &pl[k] {
                return Err(format!(
                    "cell {} before the cursor in its logical line changed: {:?} -> {:?}",
                    k,
                    show(pl),
                    show(ql)
                ));
            }
        }
        if pre.cur_off < pl.len() && post.cur_off != pre.cur_off {
            return Err(format!(
                "cursor was on character {} of its logical line, now on {}",
                pre.cur_off, post.cur_off
            ));
        }
    }
    // 3. lines from the cursor's line on: equal lines, then at most one prefix, then nothing
    let q = strip_trailing_empty(&pre.lines[li.min(pre.lines.len())..]);
    let p = strip_trailing_empty(&post.lines[li.min(post.lines.len())..]);
    if p.len() > q.len() {
        return Err(format!(
            "{} logical lines from the cursor line on, only {} before (invented content)",
            p.len(),
            q.len()
        ));
    }
    for j in 0..p.len() {
        let last = j + 1 == p.len();
        if p[j] == q[j] {
            continue;
        }
        if last && p[j].len() <= q[j].len() && q[j][..p[j].len()] == p[j][..] {
            continue;
        }
        return Err(format!(
            "logical line {} altered: {:?} -> {:?}",
            li + j,
            show(&q[j]),
            show(&p[j])
        ));
    }
    Ok(())
}
