//! Configurations, abstract commands with their concrete spellings, and the
//! environment operations (feed / resize and the way `Changes` is treated).

use avt::{Line, Vt};
use std::fmt;

#[derive(Clone, Copy, Debug, PartialEq, Eq, Hash, PartialOrd, Ord)]
pub struct Cfg {
    pub cols: usize,
    pub rows: usize,
    pub limit: Option<usize>,
}

impl Cfg {
    pub const fn new(cols: usize, rows: usize, limit: Option<usize>) -> Self {
        Cfg { cols, rows, limit }
    }
    pub fn build(&self) -> Vt {
        build_vt(self.cols, self.rows, self.limit)
    }
    pub fn name(&self) -> String {
        match self.limit {
            None => format!("{}x{}/unl", self.cols, self.rows),
            Some(n) => format!("{}x{}/{}", self.cols, self.rows, n),
        }
    }
}

pub fn build_vt(cols: usize, rows: usize, limit: Option<usize>) -> Vt {
    let mut b = Vt::builder();
    b.size(cols, rows);
    if let Some(l) = limit {
        b.scrollback_limit(l);
    }
    b.build()
}

pub fn cfgs(sizes: &[(usize, usize)], limits: &[Option<usize>]) -> Vec<Cfg> {
    let mut v = vec![];
    for &(c, r) in sizes {
        for &l in limits {
            v.push(Cfg::new(c, r, l));
        }
    }
    v
}

pub const S3: &[(usize, usize)] = &[(1, 1), (1, 2), (2, 1), (2, 2), (3, 2), (2, 3), (3, 3)];
pub const S4: &[(usize, usize)] = &[
    (1, 1),
    (1, 2),
    (2, 1),
    (2, 2),
    (3, 2),
    (2, 3),
    (3, 3),
    (4, 2),
    (4, 3),
    (1, 4),
];

/// A parameter as written: `None` = omitted.
pub type P = Option<u32>;

/// Abstract commands. The reference terminal consumes these, never strings.
#[derive(Clone, Debug, PartialEq, Eq, Hash)]
pub enum Cmd {
    Text(String),
    Bs,
    Ht,
    Lf,
    Cr,
    So,
    Si,
    Nel,
    Hts,
    Ri,
    Decsc,
    Decrc,
    Scosc,
    Scorc,
    Ris,
    Decaln,
    Decstr,
    /// designate: slot (0 = G0, 1 = G1), drawing?
    Desig(u8, bool),
    Ich(P),
    Cuu(P),
    Cud(P),
    Cuf(P),
    Cub(P),
    Cnl(P),
    Cpl(P),
    Cha(P),
    Cup(P, P),
    Cht(P),
    Ed(P),
    El(P),
    Il(P),
    Dl(P),
    Dch(P),
    Su(P),
    Sd(P),
    Ctc(P),
    Ech(P),
    Cbt(P),
    Rep(P),
    Vpa(P),
    Vpr(P),
    Tbc(P),
    Sm(Vec<u32>),
    Rm(Vec<u32>),
    DecSet(Vec<u32>),
    DecRst(Vec<u32>),
    /// each parameter is a list of ':'-separated parts, `None` = empty part
    Sgr(Vec<Vec<Option<u32>>>),
    Decstbm(P, P),
    /// input that must have no effect at all (C20)
    Inert(String),
    /// input the reference terminal does not model (truncated sequences …)
    Raw(String),
    Resize(usize, usize),
    /// several commands delivered in one call
    Seq(Vec<Cmd>),
}

/// Spelling variant of a command.
#[derive(Clone, Copy, Debug, Default, PartialEq, Eq, Hash)]
pub struct Sp {
    /// use 8-bit C1 forms (U+009B for CSI, U+0084.. for ESC Fe)
    pub c1: bool,
    /// alternative final byte / control where one exists
    /// (H/f, G/`, C/a, B/e does not exist: e is VPR; LF/VT/FF/IND)
    pub alt: u8,
    /// write an explicit `0` where the parameter is omitted
    pub zero: bool,
}

pub const SP7: Sp = Sp {
    c1: false,
    alt: 0,
    zero: false,
};
pub const SP8: Sp = Sp {
    c1: true,
    alt: 0,
    zero: false,
};

fn p(x: &P, sp: Sp) -> String {
    match x {
        Some(v) => v.to_string(),
        None => {
            if sp.zero {
                "0".into()
            } else {
                String::new()
            }
        }
    }
}

fn csi(sp: Sp) -> &'static str {
    if sp.c1 {
        "\u{9b}"
    } else {
        "\x1b["
    }
}

fn esc_fe(sp: Sp, f: char) -> String {
    if sp.c1 {
        char::from_u32(f as u32 + 0x40).unwrap().to_string()
    } else {
        format!("\x1b{}", f)
    }
}

fn list(v: &[u32]) -> String {
    v.iter().map(|x| x.to_string()).collect::<Vec<_>>().join(";")
}

impl Cmd {
    pub fn spell(&self, sp: Sp) -> String {
        use Cmd::*;
        let c = csi(sp);
        let one = |x: &P, f: &str| format!("{}{}{}", c, p(x, sp), f);
        match self {
            Text(s) => s.clone(),
            Bs => "\x08".into(),
            Ht => "\x09".into(),
            Lf => match sp.alt {
                0 => "\n".into(),
                1 => "\x0b".into(),
                2 => "\x0c".into(),
                _ => esc_fe(sp, 'D'),
            },
            Cr => "\r".into(),
            So => "\x0e".into(),
            Si => "\x0f".into(),
            Nel => esc_fe(sp, 'E'),
            Hts => esc_fe(sp, 'H'),
            Ri => esc_fe(sp, 'M'),
            Decsc => "\x1b7".into(),
            Decrc => "\x1b8".into(),
            Scosc => format!("{}s", c),
            Scorc => format!("{}u", c),
            Ris => "\x1bc".into(),
            Decaln => "\x1b#8".into(),
            Decstr => format!("{}!p", c),
            Desig(slot, drawing) => format!(
                "\x1b{}{}",
                if *slot == 0 { '(' } else { ')' },
                if *drawing {
                    '0'
                } else if sp.alt == 0 {
                    'B'
                } else {
                    'A'
                }
            ),
            Ich(x) => one(x, "@"),
            Cuu(x) => one(x, "A"),
            Cud(x) => one(x, "B"),
            Cuf(x) => one(x, if sp.alt == 0 { "C" } else { "a" }),
            Cub(x) => one(x, "D"),
            Cnl(x) => one(x, "E"),
            Cpl(x) => one(x, "F"),
            Cha(x) => one(x, if sp.alt == 0 { "G" } else { "`" }),
            Cup(r, cc) => {
                let f = if sp.alt == 0 { "H" } else { "f" };
                if cc.is_none() && !sp.zero {
                    format!("{}{}{}", c, p(r, sp), f)
                } else {
                    format!("{}{};{}{}", c, p(r, sp), p(cc, sp), f)
                }
            }
            Cht(x) => one(x, "I"),
            Ed(x) => one(x, "J"),
            El(x) => one(x, "K"),
            Il(x) => one(x, "L"),
            Dl(x) => one(x, "M"),
            Dch(x) => one(x, "P"),
            Su(x) => one(x, "S"),
            Sd(x) => one(x, "T"),
            Ctc(x) => one(x, "W"),
            Ech(x) => one(x, "X"),
            Cbt(x) => one(x, "Z"),
            Rep(x) => one(x, "b"),
            Vpa(x) => one(x, "d"),
            Vpr(x) => one(x, "e"),
            Tbc(x) => one(x, "g"),
            Sm(v) => format!("{}{}h", c, list(v)),
            Rm(v) => format!("{}{}l", c, list(v)),
            DecSet(v) => format!("{}?{}h", c, list(v)),
            DecRst(v) => format!("{}?{}l", c, list(v)),
            Sgr(ps) => {
                let body = ps
                    .iter()
                    .map(|parts| {
                        parts
                            .iter()
                            .map(|x| match x {
                                Some(v) => v.to_string(),
                                None => String::new(),
                            })
                            .collect::<Vec<_>>()
                            .join(":")
                    })
                    .collect::<Vec<_>>()
                    .join(";");
                format!("{}{}m", c, body)
            }
            Decstbm(t, b) => {
                if b.is_none() && !sp.zero {
                    if t.is_none() {
                        format!("{}r", c)
                    } else {
                        format!("{}{}r", c, p(t, sp))
                    }
                } else {
                    format!("{}{};{}r", c, p(t, sp), p(b, sp))
                }
            }
            Inert(s) | Raw(s) => s.clone(),
            Resize(_, _) => String::new(),
            Seq(v) => v.iter().map(|x| x.spell(sp)).collect::<Vec<_>>().join(""),
        }
    }
}

/// How an operation is delivered and how its `Changes` value is treated.
#[derive(Clone, Copy, Debug, PartialEq, Eq, Hash)]
pub enum Kind {
    /// one `feed_str`, scrollback iterator fully drained
    Feed,
    /// one `feed_str`, `Changes` dropped without touching the iterator
    FeedDrop,
    /// one `feed_str`, a single `next()` on the iterator, then dropped
    FeedPartial,
    /// `feed(ch)` for every char (no `feed_str`, so no trim / no change report)
    FeedChars,
    /// one `feed_str` per character, every iterator drained
    FeedSplit,
    /// `resize`, drained
    Resize,
    /// `resize`, dropped
    ResizeDrop,
}

#[derive(Clone, Debug, PartialEq, Eq, Hash)]
pub struct Op {
    pub kind: Kind,
    pub cmd: Cmd,
    pub text: String,
    /// BFS levels at which the explorer applies this op: 0 = every level, otherwise
    /// bit d is set when the op is enabled in states reached by d ops (layered alphabets)
    pub levels: u8,
}

impl Op {
    pub fn new(cmd: Cmd) -> Op {
        Op::sp(cmd, SP7)
    }
    pub fn sp(cmd: Cmd, sp: Sp) -> Op {
        let kind = if matches!(cmd, Cmd::Resize(..)) {
            Kind::Resize
        } else {
            Kind::Feed
        };
        let text = cmd.spell(sp);
        Op { kind, cmd, text, levels: 0 }
    }
    pub fn kind(mut self, k: Kind) -> Op {
        self.kind = k;
        self
    }
    /// enable only at the BFS levels of the mask (bit d = after d ops)
    pub fn at(mut self, mask: u8) -> Op {
        self.levels = mask;
        self
    }
    pub fn enabled_at(&self, depth: usize) -> bool {
        self.levels == 0 || (depth < 8 && self.levels & (1 << depth) != 0)
    }
    pub fn text(s: &str) -> Op {
        Op::new(Cmd::Text(s.to_string()))
    }
    /// an abstract command with an explicitly given spelling (zero-padded parameters ...)
    pub fn spelled(cmd: Cmd, text: &str) -> Op {
        let mut o = Op::new(cmd);
        o.text = text.to_string();
        o
    }
    pub fn raw(s: &str) -> Op {
        Op::new(Cmd::Raw(s.to_string()))
    }
    pub fn resize(c: usize, r: usize) -> Op {
        Op::new(Cmd::Resize(c, r))
    }
    pub fn is_resize(&self) -> bool {
        matches!(self.kind, Kind::Resize | Kind::ResizeDrop)
    }
    pub fn describe(&self) -> String {
        match &self.cmd {
            Cmd::Resize(c, r) => format!("{:?}:resize({},{})", self.kind, c, r),
            _ => format!("{:?}:{}", self.kind, esc(&self.text)),
        }
    }
}

impl fmt::Display for Op {
    fn fmt(&self, f: &mut fmt::Formatter<'_>) -> fmt::Result {
        write!(f, "{}", self.describe())
    }
}

/// Printable rendering of an input string.
pub fn esc(s: &str) -> String {
    let mut o = String::new();
    for ch in s.chars() {
        match ch {
            '\x1b' => o.push_str("ESC"),
            '\u{9b}' => o.push_str("CSI"),
            '\r' => o.push_str("\\r"),
            '\n' => o.push_str("\\n"),
            c if (c as u32) < 0x20 || (0x7f..0xa0).contains(&(c as u32)) => {
                o.push_str(&format!("\\u{{{:x}}}", c as u32))
            }
            c => o.push(c),
        }
    }
    o
}

/// What a call handed back.
#[derive(Clone, Debug, Default)]
pub struct Applied {
    /// `Changes.lines` (empty for FeedChars)
    pub changed: Vec<usize>,
    /// lines taken from `Changes.scrollback` (drained part only)
    pub scrollback: Vec<Line>,
    /// whether this op produced a `Changes` value at all
    pub reported: bool,
}

pub fn apply(vt: &mut Vt, op: &Op) -> Applied {
    match op.kind {
        Kind::Feed => {
            let ch = vt.feed_str(&op.text);
            let changed = ch.lines.clone();
            let scrollback: Vec<Line> = ch.scrollback.collect();
            Applied {
                changed,
                scrollback,
                reported: true,
            }
        }
        Kind::FeedDrop => {
            let ch = vt.feed_str(&op.text);
            let changed = ch.lines.clone();
            drop(ch);
            Applied {
                changed,
                scrollback: vec![],
                reported: true,
            }
        }
        Kind::FeedPartial => {
            let mut ch = vt.feed_str(&op.text);
            let changed = ch.lines.clone();
            let scrollback: Vec<Line> = ch.scrollback.next().into_iter().collect();
            drop(ch);
            Applied {
                changed,
                scrollback,
                reported: true,
            }
        }
        Kind::FeedChars => {
            for c in op.text.chars() {
                vt.feed(c);
            }
            Applied::default()
        }
        Kind::FeedSplit => {
            let mut changed: Vec<usize> = vec![];
            let mut scrollback: Vec<Line> = vec![];
            let mut b = [0u8; 4];
            for c in op.text.chars() {
                let ch = vt.feed_str(c.encode_utf8(&mut b));
                for l in &ch.lines {
                    if !changed.contains(l) {
                        changed.push(*l);
                    }
                }
                scrollback.extend(ch.scrollback);
            }
            changed.sort();
            Applied {
                changed,
                scrollback,
                reported: true,
            }
        }
        Kind::Resize | Kind::ResizeDrop => {
            let (c, r) = match op.cmd {
                Cmd::Resize(c, r) => (c, r),
                _ => unreachable!(),
            };
            let ch = vt.resize(c, r);
            let changed = ch.lines.clone();
            let scrollback: Vec<Line> = if op.kind == Kind::Resize {
                ch.scrollback.collect()
            } else {
                drop(ch);
                vec![]
            };
            Applied {
                changed,
                scrollback,
                reported: true,
            }
        }
    }
}

// ---------- helpers to build alphabets ----------

pub fn t(s: &str) -> Op {
    Op::text(s)
}
pub fn c(cmd: Cmd) -> Op {
    Op::new(cmd)
}
pub fn c8(cmd: Cmd) -> Op {
    Op::sp(cmd, SP8)
}
pub fn calt(cmd: Cmd, alt: u8) -> Op {
    Op::sp(
        cmd,
        Sp {
            c1: false,
            alt,
            zero: false,
        },
    )
}
pub fn czero(cmd: Cmd) -> Op {
    Op::sp(
        cmd,
        Sp {
            c1: false,
            alt: 0,
            zero: true,
        },
    )
}
pub fn sgr1(v: u32) -> Cmd {
    Cmd::Sgr(vec![vec![Some(v)]])
}
pub fn sgr(vs: &[u32]) -> Cmd {
    Cmd::Sgr(vs.iter().map(|v| vec![Some(*v)]).collect())
}
