//! C09 — logical text is reproduced exactly, whatever the width.

use crate::engine::guarded;
use crate::obs::fingerprint;
use crate::ops::{build_vt, esc};
use crate::report::*;
use avt::util::TextUnwrapper;
use rayon::prelude::*;
use serde_json::{json, Value};
use std::collections::HashSet;
use std::time::Instant;

fn gen_lines(sigma: &[char], m: usize) -> Vec<String> {
    let mut out = vec![String::new()];
    let mut level = vec![String::new()];
    for _ in 0..m {
        let mut next = vec![];
        for s in &level {
            for &ch in sigma {
                let mut x = s.clone();
                x.push(ch);
                next.push(x);
            }
        }
        out.extend(next.iter().cloned());
        level = next;
    }
    out
}

fn gen_texts(sigma: &[char], m: usize, k: usize) -> Vec<Vec<String>> {
    let lines = gen_lines(sigma, m);
    let mut out: Vec<Vec<String>> = vec![vec![]];
    for _ in 0..k {
        let mut next = vec![];
        for t in &out {
            for l in &lines {
                let mut x = t.clone();
                x.push(l.clone());
                next.push(x);
            }
        }
        out = next;
    }
    out
}

fn strip(mut v: Vec<String>) -> Vec<String> {
    while v.last().map(|s| s.is_empty()).unwrap_or(false) {
        v.pop();
    }
    v
}

/// returns Err(description) if the property fails for this text at this size
fn check_one(lines: &[String], cols: usize, rows: usize, per_char: bool) -> Result<u128, String> {
    let input = lines.join("\r\n");
    let expected: Vec<String> = strip(lines.iter().map(|l| l.trim_end().to_string()).collect());
    let mut vt = build_vt(cols, rows, None);
    if per_char {
        for ch in input.chars() {
            vt.feed(ch);
        }
    } else {
        let _ = vt.feed_str(&input);
    }
    let got = strip(vt.text());
    if got != expected {
        return Err(format!("text() = {:?}, expected {:?}", got, expected));
    }
    let mut u = TextUnwrapper::new();
    let mut un: Vec<String> = vt.lines().iter().filter_map(|l| u.push(l)).collect();
    un.extend(u.flush());
    let un = strip(un.into_iter().map(|s| s.trim_end().to_string()).collect());
    if un != expected {
        return Err(format!(
            "TextUnwrapper over lines() = {:?}, expected {:?}",
            un, expected
        ));
    }
    Ok(fingerprint(&vt))
}

struct Family {
    name: &'static str,
    sigma: Vec<char>,
    m: usize,
    k: usize,
    w: usize,
    h: usize,
}

fn families(tier: Tier) -> Vec<Family> {
    match tier {
        Tier::Quick => vec![
            Family { name: "ab-space-e-nbsp", sigma: vec!['a', ' ', 'é', '\u{a0}'], m: 4, k: 2, w: 4, h: 3 },
            Family { name: "a-space-long", sigma: vec!['a', ' '], m: 9, k: 1, w: 5, h: 2 },
            Family { name: "three-lines", sigma: vec!['a', ' '], m: 3, k: 3, w: 3, h: 2 },
        ],
        Tier::Thorough => vec![
            Family { name: "six-chars", sigma: vec!['a', 'b', ' ', 'é', '漢', '\u{a0}'], m: 4, k: 2, w: 5, h: 3 },
            Family { name: "a-space-3lines", sigma: vec!['a', ' '], m: 6, k: 3, w: 5, h: 3 },
            Family { name: "a-space-long", sigma: vec!['a', ' '], m: 14, k: 1, w: 7, h: 3 },
            Family { name: "four-lines", sigma: vec!['a', ' '], m: 3, k: 4, w: 4, h: 3 },
        ],
    }
}

pub fn run(ctx: &Ctx) -> Report {
    let mut rep = Report::new();
    crate::engine::install_panic_hook();
    for fam in families(ctx.tier) {
        let t0 = Instant::now();
        let texts = gen_texts(&fam.sigma, fam.m, fam.k);
        let mut sizes = vec![];
        for w in 1..=fam.w {
            for h in 1..=fam.h {
                sizes.push((w, h));
            }
        }
        let results: Vec<(u64, u64, Vec<u128>, Option<(Vec<String>, usize, usize, bool, String)>)> = texts
            .par_iter()
            .map(|lines| {
                let mut runs = 0;
                let mut nontrivial = 0;
                let mut fps = vec![];
                let mut bad = None;
                let longest = lines.iter().map(|l| l.chars().count()).max().unwrap_or(0);
                for &(w, h) in &sizes {
                    for per_char in [false, true] {
                        runs += 1;
                        if longest > w || lines.len() > h {
                            nontrivial += 1;
                        }
                        let r = guarded(|| check_one(lines, w, h, per_char));
                        match r {
                            Ok(Ok(fp)) => {
                                if !per_char {
                                    fps.push(fp)
                                }
                            }
                            Ok(Err(m)) => {
                                if bad.is_none() {
                                    bad = Some((lines.clone(), w, h, per_char, m));
                                }
                            }
                            Err(m) => {
                                if bad.is_none() {
                                    bad = Some((lines.clone(), w, h, per_char, format!("panic: {}", m)));
                                }
                            }
                        }
                    }
                }
                (runs, nontrivial, fps, bad)
            })
            .collect();
        let mut states: HashSet<u128> = HashSet::new();
        let mut runs = 0;
        let mut nontrivial = 0;
        let mut nbad = 0;
        for (r, nt, fps, bad) in results {
            runs += r;
            nontrivial += nt;
            states.extend(fps);
            if let Some((lines, w, h, per_char, m)) = bad {
                nbad += 1;
                if nbad <= 3 {
                    emit_violation(
                        ctx,
                        &mut rep,
                        "C09",
                        json!({"part": fam.name, "lines": lines, "cols": w, "rows": h, "per_char": per_char,
                               "input": esc(&lines.join("\r\n")), "oracle": "text-reproduced", "observed": m}),
                    );
                } else {
                    rep.violations += 1;
                }
            }
        }
        rep.states += states.len() as u64;
        rep.transitions += runs;
        rep.evaluations += runs;
        rep.traces_validated += runs;
        rep.distinct_nontrivial += nontrivial;
        rep.parts.push(json!({"part": fam.name, "alphabet": fam.sigma.iter().collect::<String>(), "max_line_len": fam.m, "lines": fam.k,
            "widths": fam.w, "heights": fam.h, "texts": texts.len(), "runs": runs, "final_states": states.len(),
            "violating_texts": nbad, "wall_s": t0.elapsed().as_secs_f64()}));
        rep.samples.push(json!({"text": texts[texts.len() / 2].join("\\r\\n"), "sizes": format!("1x1..{}x{}", fam.w, fam.h)}));
        println!(
            "part {}: texts {} runs {} final states {} violations {} ({:.1}s)",
            fam.name,
            texts.len(),
            runs,
            states.len(),
            nbad,
            t0.elapsed().as_secs_f64()
        );
    }
    // every printable Unicode scalar survives the trip, alone and inside a wrapped line
    {
        let t0 = Instant::now();
        let all: Vec<u32> = (0x20u32..=0x10FFFF).filter(|c| !(0x7f..0xa0).contains(c) && char::from_u32(*c).is_some()).collect();
        let bad: Vec<(u32, usize, String)> = all
            .par_iter()
            .filter_map(|&cp| {
                let ch = char::from_u32(cp).unwrap();
                let line: String = ['x', ch, 'y', ch, 'z'].iter().collect();
                for w in [1usize, 2, 3, 7] {
                    let err = match guarded(|| check_one(&[line.clone()], w, 2, w % 2 == 1)) {
                        Ok(Ok(_)) => None,
                        Ok(Err(e)) => Some(e),
                        Err(m) => Some(format!("panic: {}", m)),
                    };
                    if let Some(e) = err {
                        return Some((cp, w, e));
                    }
                }
                None
            })
            .collect();
        let runs = all.len() as u64 * 4;
        rep.transitions += runs;
        rep.evaluations += runs;
        rep.traces_validated += runs;
        rep.distinct_nontrivial += runs;
        rep.parts.push(json!({"part":"every-printable-scalar","scalars":all.len(),"runs":runs,"violating":bad.len(),"wall_s":t0.elapsed().as_secs_f64()}));
        println!("part every-printable-scalar: {} runs, {} violating ({:.1}s)", runs, bad.len(), t0.elapsed().as_secs_f64());
        for (cp, w, e) in bad.iter().take(3) {
            let ch = char::from_u32(*cp).unwrap();
            let line: String = ['x', ch, 'y', ch, 'z'].iter().collect();
            emit_violation(ctx, &mut rep, "C09", json!({"part":"every-printable-scalar","lines":[line],"cols":w,"rows":2,"per_char": w % 2 == 1,
                "scalar": cp, "oracle":"text-reproduced","observed":e}));
        }
        if bad.len() > 3 {
            rep.violations += bad.len() as u64 - 3;
        }
    }
    // ... and next to characters of every kind: each scalar directly after a 2-byte, a 3-byte
    // double-width, a symbol and a zero-width character, and followed by them (what is done to
    // a character because of its NEIGHBOUR: joining, skipping, widening)
    {
        let t0 = Instant::now();
        let all: Vec<u32> = (0x20u32..=0x10FFFF)
            .filter(|c| !(0x7f..0xa0).contains(c) && char::from_u32(*c).is_some())
            .filter(|&c| ctx.tier == Tier::Thorough || c < 0x3000 || (0xFE00..=0xFFFF).contains(&c) || (0x1F000..=0x1FAFF).contains(&c) || (0xE0000..=0xE01FF).contains(&c) || c % 251 == 0)
            .collect();
        let neighbours = ['\u{e9}', '\u{6f22}', '\u{2764}', '\u{301}', '\u{1F600}'];
        let bad: Vec<(u32, usize, String, String)> = all
            .par_iter()
            .filter_map(|&cp| {
                let ch = char::from_u32(cp).unwrap();
                let mut line = String::new();
                for nb in neighbours {
                    line.push(nb);
                    line.push(ch);
                }
                line.push('!');
                for w in [2usize, 5, 20] {
                    let err = match guarded(|| check_one(&[line.clone()], w, 2, w == 5)) {
                        Ok(Ok(_)) => None,
                        Ok(Err(e)) => Some(e),
                        Err(m) => Some(format!("panic: {}", m)),
                    };
                    if let Some(e) = err {
                        return Some((cp, w, line.clone(), e));
                    }
                }
                None
            })
            .collect();
        let runs = all.len() as u64 * 3;
        rep.transitions += runs;
        rep.evaluations += runs;
        rep.traces_validated += runs;
        rep.distinct_nontrivial += runs;
        rep.parts.push(json!({"part":"every-scalar-next-to-non-ascii","scalars":all.len(),"neighbours":neighbours.len(),"runs":runs,"violating":bad.len(),"wall_s":t0.elapsed().as_secs_f64()}));
        println!("part every-scalar-next-to-non-ascii: {} scalars x 5 neighbours, {} runs, {} violating ({:.1}s)", all.len(), runs, bad.len(), t0.elapsed().as_secs_f64());
        for (cp, w, line, e) in bad.iter().take(3) {
            emit_violation(ctx, &mut rep, "C09", json!({"part":"every-scalar-next-to-non-ascii","lines":[line],"cols":w,"rows":2,"per_char": *w == 5,
                "scalar": cp, "oracle":"text-reproduced","observed":e}));
        }
        if bad.len() > 3 {
            rep.violations += bad.len() as u64 - 3;
        }
    }
    // pairs of characters: what is done to a character because of the one before it (joined,
    // composed, swallowed) - every ordered pair over a grid of scalar values (every 0x80th below
    // U+3400, every 0x1000th above - thorough 0x40 / 0x400 - and the characters known to
    // interact: jamo, joiners, selectors, modifiers, marks, viramas, regional indicators, tags)
    {
        let t0 = Instant::now();
        let (fine, coarse) = ctx.tier.pick((0x80u32, 0x1000u32), (0x40, 0x400));
        let mut grid: Vec<u32> = (0xa0u32..0x3400).step_by(fine as usize).collect();
        grid.extend((0x3400u32..0x110000).step_by(coarse as usize));
        grid.extend([
            0x61, 0x20, 0x1100, 0x1161, 0x11a8, 0xac00, 0xac01, 0x200d, 0x200c, 0x200b, 0xfe0f, 0xfe0e, 0xfe00, 0x1f3fb, 0x1f1e6, 0x1f1fa, 0x1f468, 0x2764, 0x301, 0x20e3, 0x94d,
            0x915, 0xe33, 0xe01, 0x644, 0x627, 0x202e, 0x2066, 0xe0061, 0xe007f, 0x3099, 0x304b, 0xff9e, 0xff76, 0x1160, 0x115f, 0x34f, 0xad, 0x61c, 0x180e, 0xfeff, 0xfffd,
        ]);
        grid.retain(|c| char::from_u32(*c).is_some() && !(0x7f..0xa0).contains(c));
        grid.sort();
        grid.dedup();
        let bad: Vec<(u32, u32, String)> = grid
            .par_iter()
            .filter_map(|&a| {
                let ca = char::from_u32(a).unwrap();
                for &b in &grid {
                    let cb = char::from_u32(b).unwrap();
                    let line: String = ['x', ca, cb, 'y', ca, cb, cb].iter().collect();
                    for w in [3usize, 16] {
                        let err = match guarded(|| check_one(&[line.clone()], w, 2, w == 3)) {
                            Ok(Ok(_)) => None,
                            Ok(Err(e)) => Some(e),
                            Err(m) => Some(format!("panic: {}", m)),
                        };
                        if let Some(e) = err {
                            return Some((a, b, e));
                        }
                    }
                }
                None
            })
            .collect();
        let runs = (grid.len() * grid.len() * 2) as u64;
        rep.transitions += runs;
        rep.evaluations += runs;
        rep.traces_validated += runs;
        rep.distinct_nontrivial += runs;
        rep.parts.push(json!({"part":"every-pair-over-a-grid-of-scalars","grid":grid.len(),"pairs":grid.len()*grid.len(),"runs":runs,"violating":bad.len(),"wall_s":t0.elapsed().as_secs_f64()}));
        println!("part every-pair-over-a-grid-of-scalars: {} scalars, {} ordered pairs, {} violating first characters ({:.1}s)", grid.len(), grid.len() * grid.len(), bad.len(), t0.elapsed().as_secs_f64());
        for (a, b, e) in bad.iter().take(3) {
            let (ca, cb) = (char::from_u32(*a).unwrap(), char::from_u32(*b).unwrap());
            let line: String = ['x', ca, cb, 'y', ca, cb, cb].iter().collect();
            emit_violation(ctx, &mut rep, "C09", json!({"part":"every-pair-over-a-grid-of-scalars","lines":[line],"cols":3,"rows":2,"per_char": true,
                "pair": [a, b], "oracle":"text-reproduced","observed":format!("U+{:04X} followed by U+{:04X}: {}", a, b, e)}));
        }
        if bad.len() > 3 {
            rep.violations += bad.len() as u64 - 3;
        }
    }
    // read while it grows: ONE terminal, a line per call, text() and the unwrapped lines()
    // after EVERY call (a reader that looks more than once must see the same text as one
    // that looks at the end) - up to 1400 (thorough 6000) lines of 1..36 characters
    {
        let t0 = Instant::now();
        let n = ctx.tier.pick(1400usize, 6000usize);
        let mut bad: Option<(usize, usize, String)> = None;
        let sizes = [(10usize, 3usize), (7, 2), (20, 5)];
        let res: Vec<Option<(usize, usize, String)>> = sizes
            .par_iter()
            .map(|&(w, h)| {
                let r = guarded(|| {
                    let mut vt = build_vt(w, h, None);
                    let mut expected: Vec<String> = vec![];
                    for i in 0..n {
                        let len = 1 + (i * 7) % 36;
                        let line: String = (0..len).map(|k| char::from_u32('a' as u32 + ((i + k) % 26) as u32).unwrap()).collect();
                        let _ = vt.feed_str(&line);
                        let _ = vt.feed_str("\r\n");
                        expected.push(line);
                        let got = strip(vt.text());
                        if got != expected {
                            let k = got.iter().zip(expected.iter()).position(|(a, b)| a != b).unwrap_or(got.len().min(expected.len()));
                            return Some((i + 1, format!("after line {}: text() has {} lines, expected {}; first difference at line {}: {:?} vs {:?}", i + 1, got.len(), expected.len(), k, got.get(k), expected.get(k))));
                        }
                        if i % 16 == 0 || i + 1 == n {
                            let mut u = TextUnwrapper::new();
                            let mut un: Vec<String> = vt.lines().iter().filter_map(|l| u.push(l)).collect();
                            un.extend(u.flush());
                            let un = strip(un.into_iter().map(|s| s.trim_end().to_string()).collect());
                            if un != expected {
                                return Some((i + 1, format!("after line {}: TextUnwrapper over lines() has {} lines, expected {}", i + 1, un.len(), expected.len())));
                            }
                        }
                    }
                    None
                });
                match r {
                    Ok(None) => None,
                    Ok(Some((i, e))) => Some((w, i, e)),
                    Err(p) => Some((w, 0, format!("panic: {}", p))),
                }
            })
            .collect();
        for r in res.into_iter().flatten() {
            if bad.is_none() {
                bad = Some(r);
            }
        }
        let runs = (n * sizes.len()) as u64;
        rep.transitions += runs;
        rep.evaluations += runs;
        rep.traces_validated += runs;
        rep.distinct_nontrivial += runs;
        rep.parts.push(json!({"part":"read-while-it-grows","lines":n,"sizes":"10x3, 7x2, 20x5","reads":runs,"violating": bad.is_some() as u32,"wall_s":t0.elapsed().as_secs_f64()}));
        println!("part read-while-it-grows: {} reads of text() on growing terminals, {} violating ({:.1}s)", runs, bad.is_some() as u32, t0.elapsed().as_secs_f64());
        if let Some((w, i, e)) = bad {
            emit_violation(ctx, &mut rep, "C09", json!({"part":"read-while-it-grows","cols":w,"line":i,"oracle":"text-reproduced","observed":e}));
        }
    }
    // one very long line: "however many rows each line wraps over" - every length around the
    // powers of two up to 2^21 (thorough 2^23) characters, between two short lines
    {
        let t0 = Instant::now();
        let mut lens: Vec<usize> = vec![];
        for k in 10..=ctx.tier.pick(22u32, 24) {
            let b = 1usize << k;
            lens.extend([b - 1, b, b + 1]);
        }
        lens.extend([100_000, 1_000_000, 1_100_000]);
        lens.sort();
        let bad: Vec<(usize, usize, String)> = lens
            .par_iter()
            .filter_map(|&n| {
                let body: String = "abcdefghij".chars().cycle().take(n).collect();
                let lines = vec!["first".to_string(), body, "last".to_string()];
                for (w, h) in [(80usize, 24usize), (7, 3)] {
                    if w == 7 && n > (1 << 18) {
                        continue;
                    }
                    let err = match guarded(|| check_one(&lines, w, h, false)) {
                        Ok(Ok(_)) => None,
                        Ok(Err(e)) => Some(e),
                        Err(m) => Some(format!("panic: {}", m)),
                    };
                    if let Some(e) = err {
                        let short: String = if e.len() > 300 { format!("{} ... ({} characters)", e.chars().take(120).collect::<String>(), e.len()) } else { e };
                        return Some((n, w, short));
                    }
                }
                None
            })
            .collect();
        let runs = lens.len() as u64 * 2;
        rep.transitions += runs;
        rep.evaluations += runs;
        rep.traces_validated += runs;
        rep.distinct_nontrivial += runs;
        rep.parts.push(json!({"part":"one-very-long-line","lengths":lens.len(),"max_length":lens.last(),"runs":runs,"violating":bad.len(),"wall_s":t0.elapsed().as_secs_f64()}));
        println!("part one-very-long-line: {} lengths up to {}, {} violating ({:.1}s)", lens.len(), lens.last().unwrap(), bad.len(), t0.elapsed().as_secs_f64());
        for (n, w, e) in bad.iter().take(2) {
            emit_violation(ctx, &mut rep, "C09", json!({"part":"one-very-long-line","length":n,"cols":w,"oracle":"text-reproduced","observed":format!("a line of {} characters at width {}: {}", n, w, e)}));
        }
        if bad.len() > 2 {
            rep.violations += bad.len() as u64 - 2;
        }
    }
    // runs of spaces of EVERY length inside a line, on wide screens: "text containing ... spaces"
    // - an inner run of spaces may cover a whole row's tail (and whole rows) and is still text
    {
        let t0 = Instant::now();
        let cases: Vec<(usize, usize)> = [40usize, 130, 258, 300, 520].iter().flat_map(|&w| (0..=2 * w + 3).map(move |n| (w, n))).collect();
        let bad: Vec<(usize, usize, String)> = cases
            .par_iter()
            .filter_map(|&(w, n)| {
                for head in ["k", "key:", ""] {
                    let lines = vec!["first".to_string(), format!("{}{}value", head, " ".repeat(n)), "last".to_string()];
                    if head.is_empty() {
                        // leading spaces are text too
                    }
                    let err = match guarded(|| check_one(&lines, w, 3, false)) {
                        Ok(Ok(_)) => None,
                        Ok(Err(e)) => Some(e),
                        Err(m) => Some(format!("panic: {}", m)),
                    };
                    if let Some(e) = err {
                        let short: String = if e.len() > 300 { format!("{} ... ({} characters)", e.chars().take(120).collect::<String>(), e.len()) } else { e };
                        return Some((w, n, format!("{:?} + {} spaces + \"value\" at width {}: {}", head, n, w, short)));
                    }
                }
                None
            })
            .collect();
        let runs = cases.len() as u64 * 3;
        rep.transitions += runs;
        rep.evaluations += runs;
        rep.traces_validated += runs;
        rep.distinct_nontrivial += runs;
        rep.parts.push(json!({"part":"space-runs-of-every-length","widths":[40,130,258,300,520],"runs":runs,"violating":bad.len(),"wall_s":t0.elapsed().as_secs_f64()}));
        println!("part space-runs-of-every-length: {} texts, {} violating ({:.1}s)", runs, bad.len(), t0.elapsed().as_secs_f64());
        if let Some((w, n, e)) = bad.iter().min_by_key(|x| (x.0, x.1)) {
            emit_violation(ctx, &mut rep, "C09", json!({"part":"space-runs-of-every-length","cols":w,"spaces":n,"oracle":"text-reproduced","observed":e}));
            rep.violations += bad.len() as u64 - 1;
        }
    }
    // two reads, a power of two apart: text() read, then N more units of output (a character,
    // a line, a wrapped line, a bare LF - N around every power of two from 2^7 to 2^17), then
    // read again - the second read is the text of everything fed, exactly what a terminal
    // that was not read in between gives
    {
        let t0 = Instant::now();
        let mut ns: Vec<usize> = vec![];
        for k in 7..=ctx.tier.pick(17u32, 19) {
            let b = 1usize << k;
            ns.extend([b - 1, b, b + 1, b / 3, b / 3 + 1]);
        }
        ns.sort();
        ns.dedup();
        let units = ["a", "x\r\n", "abcde\r\n", "\n", "ab\r\n\r\n"];
        let cases: Vec<(usize, usize, usize)> = ns.iter().flat_map(|&n| (0..units.len()).flat_map(move |u| [(n, u, 4usize), (n, u, 11)])).collect();
        let bad: Vec<String> = cases
            .par_iter()
            .filter_map(|&(n, u, w)| {
                let r = guarded(|| {
                    let h = if w == 4 { 1 } else { 3 };
                    let body = units[u].repeat(n);
                    let mut a = build_vt(w, h, None);
                    let mut b = build_vt(w, h, None);
                    let _ = a.feed_str("one\r\n");
                    let _ = b.feed_str("one\r\n");
                    let first = a.text();
                    let _ = (a.lines().len(), a.view().len());
                    let _ = a.feed_str(&body);
                    let _ = b.feed_str(&body);
                    let (ta, tb) = (a.text(), b.text());
                    if ta != tb {
                        let at = ta.iter().zip(tb.iter()).position(|(x, y)| x != y).unwrap_or(ta.len().min(tb.len()));
                        return Some(format!("{}x{}: text() read, then {} x {:?}, then read again: {} lines (first read had {}), a terminal not read in between has {} lines; first difference at line {}", w, h, n, units[u], ta.len(), first.len(), tb.len(), at));
                    }
                    None
                });
                match r {
                    Ok(x) => x,
                    Err(m) => Some(format!("{} x {:?}: panic: {}", n, units[u], m)),
                }
            })
            .collect();
        let runs = cases.len() as u64;
        rep.transitions += runs;
        rep.evaluations += runs;
        rep.traces_validated += runs;
        rep.distinct_nontrivial += runs;
        rep.parts.push(json!({"part":"two-reads-a-power-of-two-apart","counts":ns.len(),"max_count":ns.last(),"units":units.len(),"runs":runs,"violating":bad.len(),"wall_s":t0.elapsed().as_secs_f64()}));
        println!("part two-reads-a-power-of-two-apart: {} runs (counts up to {}), {} violating ({:.1}s)", runs, ns.last().unwrap(), bad.len(), t0.elapsed().as_secs_f64());
        if let Some(e) = bad.first() {
            emit_violation(ctx, &mut rep, "C09", json!({"part":"two-reads-a-power-of-two-apart","oracle":"text-reproduced","observed":e}));
            rep.violations += bad.len() as u64 - 1;
        }
    }
    // every line count: "however much has scrolled into an unlimited scrollback"
    {
        let t0 = Instant::now();
        let mut counts: Vec<usize> = (1..=ctx.tier.pick(1400usize, 5000usize)).collect();
        if ctx.tier == Tier::Thorough {
            for p in 13..=16u32 {
                let b = 1usize << p;
                counts.extend([b - 1, b, b + 1]);
            }
            counts.extend([9999, 10000, 10001, 11000, 11001, 11002, 20000, 22001, 65535 + 1100]);
        }
        let make = |n: usize| -> Vec<String> { (0..n).map(|i| format!("L{} {}", i, if i % 3 == 0 { "abcdefgh" } else { "" })).collect() };
        let bad: Vec<(usize, usize, usize, String)> = counts
            .par_iter()
            .filter_map(|&n| {
                let lines = make(n);
                for (w, h) in [(7usize, 3usize), (3, 2), (20, 5)] {
                    let err = match guarded(|| check_one(&lines, w, h, n % 2 == 1 && n < 200)) {
                        Ok(Ok(_)) => None,
                        Ok(Err(e)) => Some(e),
                        Err(m) => Some(format!("panic: {}", m)),
                    };
                    if let Some(e) = err {
                        let short: String = e.chars().take(200).collect();
                        return Some((n, w, h, short));
                    }
                }
                None
            })
            .collect();
        let runs = counts.len() as u64 * 3;
        rep.transitions += runs;
        rep.evaluations += runs;
        rep.traces_validated += runs;
        rep.distinct_nontrivial += runs;
        rep.parts.push(json!({"part":"every-line-count","max_lines":counts.iter().max(),"counts":counts.len(),"sizes":"7x3, 3x2, 20x5","runs":runs,"violating":bad.len(),"wall_s":t0.elapsed().as_secs_f64()}));
        println!("part every-line-count: {} runs, {} violating ({:.1}s)", runs, bad.len(), t0.elapsed().as_secs_f64());
        for (n, w, h, e) in bad.iter().take(3) {
            emit_violation(ctx, &mut rep, "C09", json!({"part":"every-line-count","lines":make(*n),"cols":w,"rows":h,"per_char": n % 2 == 1 && *n < 200,
                "line_count": n, "oracle":"text-reproduced","observed":e}));
        }
        if bad.len() > 3 {
            rep.violations += bad.len() as u64 - 3;
        }
    }
    // one long call of multi-byte characters: whatever block size an implementation may
    // read its input in, some character straddles a block boundary
    {
        let t0 = Instant::now();
        let unit = "\u{e9}\u{20ac}\u{1F600}\u{6f22}x"; // 2-, 3-, 4-, 3-, 1-byte
        let nlines = ctx.tier.pick(3400usize, 20000usize);
        let mut straddled: std::collections::BTreeSet<u32> = Default::default();
        let mut bad: Option<(usize, usize, String)> = None;
        let mut runs = 0u64;
        'pads: for pad in 0..6usize {
            let mut lines: Vec<String> = vec!["p".repeat(pad)];
            for i in 0..nlines {
                lines.push(format!("{}{}", unit.repeat(4), i % 10));
            }
            let input = lines.join("\r\n");
            for k in 8..=20u32 {
                let b = 1usize << k;
                if b < input.len() && !input.is_char_boundary(b) {
                    straddled.insert(k);
                }
            }
            for (w, h) in [(7usize, 3usize), (21, 4), (64, 5)] {
                runs += 1;
                let err = match guarded(|| check_one(&lines, w, h, false)) {
                    Ok(Ok(_)) => None,
                    Ok(Err(e)) => Some(e),
                    Err(m) => Some(format!("panic: {}", m)),
                };
                if let Some(e) = err {
                    let short: String = e.chars().take(200).collect();
                    bad = Some((pad, w, short));
                    break 'pads;
                }
            }
        }
        rep.transitions += runs;
        rep.evaluations += runs;
        rep.traces_validated += runs;
        rep.distinct_nontrivial += runs;
        rep.parts.push(json!({"part":"long-call-of-multibyte-characters","lines":nlines,"pads":6,"runs":runs,
            "powers_of_two_with_a_character_across_them": straddled.iter().collect::<Vec<_>>(),"violating": bad.is_some() as u32,"wall_s":t0.elapsed().as_secs_f64()}));
        println!("part long-call-of-multibyte-characters: {} runs, byte offsets 2^k with a character across them: {:?}, {} violating ({:.1}s)", runs, straddled, bad.is_some() as u32, t0.elapsed().as_secs_f64());
        if let Some((pad, w, e)) = bad {
            emit_violation(ctx, &mut rep, "C09", json!({"part":"long-call-of-multibyte-characters","pad":pad,"cols":w,"oracle":"text-reproduced","observed":e}));
        }
    }
    rep.rule = "every text of <=k lines of length 0..=m over the alphabet, joined by CR LF, fed whole and per char to an unlimited-scrollback terminal of every width 1..W and height 1..H; oracle: text() and TextUnwrapper(lines()) equal the right-trimmed input lines (trailing empty lines ignored), hence equal across widths; plus the line x?y?z for every printable Unicode scalar ? at widths 1,2,3,7; plus EVERY line count 1..=1400 (thorough 5000, and around 2^13..2^16, 10000, 11000, 22000, 66635) of numbered lines at 7x3, 3x2 and 20x5; plus one call of 3400 (thorough 20000) lines of 2-, 3- and 4-byte characters at six alignments (a character straddles every power-of-two byte offset up to the input length); non-trivial = runs where a line is longer than the width or there are more lines than rows".into();
    rep.assumptions = vec!["characters limited to the listed alphabets; every char occupies one cell in avt".into()];
    rep
}

pub fn replay(ctx: &Ctx, v: &Value) -> bool {
    if v["part"] == "long-call-of-multibyte-characters" || v["part"] == "read-while-it-grows" || v["part"] == "two-reads-a-power-of-two-apart" {
        let c2 = Ctx { id: ctx.id.clone(), tier: Tier::Quick, seed: 0, start: ctx.start, known: ctx.known.clone(), replay_dir: format!("{}/again", ctx.replay_dir) };
        return run(&c2).violations > 0;
    }
    if v["part"] == "space-runs-of-every-length" {
        let n = v["spaces"].as_u64().unwrap_or(0) as usize;
        let w = v["cols"].as_u64().unwrap_or(80) as usize;
        let mut any = false;
        for head in ["k", "key:", ""] {
            let r = check_one(&["first".to_string(), format!("{}{}value", head, " ".repeat(n)), "last".to_string()], w, 3, false);
            println!("{:?}", r.as_ref().map(|_| "ok").map_err(|e| e.chars().take(200).collect::<String>()));
            any |= r.is_err();
        }
        return any;
    }
    if v["part"] == "one-very-long-line" {
        let n = v["length"].as_u64().unwrap_or(0) as usize;
        let body: String = "abcdefghij".chars().cycle().take(n).collect();
        let r = check_one(&["first".to_string(), body, "last".to_string()], v["cols"].as_u64().unwrap_or(80) as usize, 3, false);
        println!("{:?}", r.as_ref().map(|_| "ok").map_err(|e| e.chars().take(200).collect::<String>()));
        return r.is_err();
    }
    let lines: Vec<String> = v["lines"].as_array().unwrap().iter().map(|x| x.as_str().unwrap().to_string()).collect();
    let r = check_one(
        &lines,
        v["cols"].as_u64().unwrap() as usize,
        v["rows"].as_u64().unwrap() as usize,
        v["per_char"].as_bool().unwrap_or(false),
    );
    println!("{:?}", r.as_ref().map(|_| "ok"));
    r.is_err()
}
