//! Character-level strings through the public entry points, exhaustively.
//!
//! Every string of up to `k` characters over one representative per character class
//! (C0 controls that are executed inside sequences, CAN, ESC, intermediates, digits,
//! separators, private markers, finals that read parameters, the string introducers and
//! terminators in 7- and 8-bit form, DEL, BEL, non-ASCII) is given to a small terminal
//!   (a) in ONE `feed_str` call,
//!   (b) one `feed_str` call per character,
//!   (c) through `feed()` per character (the path that hands each character to
//!       `Parser::feed`, whose table is checked entry by entry in C03),
//!   (d) with one cut at every position (C12 only),
//! and the four must agree on the screen, the cursor and `dump()` (which spells out the
//! parser's state). (a) vs (c) is the end-to-end form of C03's "the character stream is
//! segmented exactly as in the diagram": whatever `feed_str` does to be fast, the stream
//! must come apart as the table says.

use crate::engine::guarded;
use crate::obs::obs;
use crate::ops::{build_vt, esc};
use crate::report::*;
use rayon::prelude::*;
use serde_json::json;

pub const TOKENS: &[char] = &[
    'a', '2', ';', 'C', 'H', '\n', '\x1b', '[', '\u{9b}', '\x08', '\t', '\x0e', '\x18', ' ', '!', ':', '?', 'm', ']', 'P', '\\', '\x07', '\u{9c}', '\u{9d}', '\u{90}', 'é',
    '(', '0', '\x7f', '\r',
];

fn strings(k: usize, long_heads: &[char]) -> Vec<String> {
    // all strings of length <= k, plus those of length k+1 that start with one of `long_heads`
    let mut out: Vec<String> = vec![];
    let mut level: Vec<String> = vec![String::new()];
    for d in 0..=k {
        let mut next = vec![];
        for s in &level {
            if d == k && !s.starts_with(|c| long_heads.contains(&c)) {
                continue;
            }
            for &t in TOKENS {
                let mut x = s.clone();
                x.push(t);
                next.push(x);
            }
        }
        out.extend(next.iter().cloned());
        level = next;
        if d == k {
            break;
        }
    }
    out
}

fn snapshot(vt: &avt::Vt) -> (crate::obs::Obs, String) {
    (obs(vt), vt.dump())
}

/// returns a description of the first disagreement
pub fn judge(s: &str, cuts: bool) -> Option<String> {
    let (cols, rows) = (4usize, 3usize);
    let whole = {
        let mut vt = build_vt(cols, rows, None);
        let _ = vt.feed_str(s);
        snapshot(&vt)
    };
    let per_char_feed = {
        let mut vt = build_vt(cols, rows, None);
        for ch in s.chars() {
            vt.feed(ch);
        }
        snapshot(&vt)
    };
    if whole != per_char_feed {
        return Some(format!(
            "one feed_str call: cursor {:?} rows {:?} dump {} / feed() per character: cursor {:?} rows {:?} dump {}",
            whole.0.cursor,
            whole.0.rows,
            esc(&whole.1),
            per_char_feed.0.cursor,
            per_char_feed.0.rows,
            esc(&per_char_feed.1)
        ));
    }
    let per_char_str = {
        let mut vt = build_vt(cols, rows, None);
        let mut b = [0u8; 4];
        for ch in s.chars() {
            let _ = vt.feed_str(ch.encode_utf8(&mut b));
        }
        snapshot(&vt)
    };
    if whole != per_char_str {
        return Some(format!(
            "one feed_str call: cursor {:?} rows {:?} dump {} / one call per character: cursor {:?} rows {:?} dump {}",
            whole.0.cursor,
            whole.0.rows,
            esc(&whole.1),
            per_char_str.0.cursor,
            per_char_str.0.rows,
            esc(&per_char_str.1)
        ));
    }
    // looking does not touch: every read accessor called after every character (feed()) and
    // after every one-character call (feed_str) - the end result is the same, and what
    // dump() says at the end is what a terminal that was never looked at says
    for per_call in [false, true] {
        let mut vt = build_vt(cols, rows, None);
        let mut b = [0u8; 4];
        for ch in s.chars() {
            if per_call {
                let _ = vt.feed_str(ch.encode_utf8(&mut b));
            } else {
                vt.feed(ch);
            }
            let _ = (vt.dump(), vt.text(), vt.lines().len(), vt.view().len(), vt.cursor(), vt.size(), vt.cursor_key_app_mode());
        }
        let looked = snapshot(&vt);
        if looked != whole {
            return Some(format!(
                "one feed_str call: cursor {:?} rows {:?} dump {} / {} with every accessor read after every character: cursor {:?} rows {:?} dump {}",
                whole.0.cursor,
                whole.0.rows,
                esc(&whole.1),
                if per_call { "one call per character" } else { "feed() per character" },
                looked.0.cursor,
                looked.0.rows,
                esc(&looked.1)
            ));
        }
    }
    if cuts {
        let idx: Vec<usize> = s.char_indices().map(|(i, _)| i).skip(1).collect();
        for i in idx {
            let mut vt = build_vt(cols, rows, None);
            let _ = vt.feed_str(&s[..i]);
            let _ = vt.feed_str(&s[i..]);
            let two = snapshot(&vt);
            if two != whole {
                return Some(format!(
                    "one feed_str call: cursor {:?} rows {:?} dump {} / cut after {} bytes: cursor {:?} rows {:?} dump {}",
                    whole.0.cursor,
                    whole.0.rows,
                    esc(&whole.1),
                    i,
                    two.0.cursor,
                    two.0.rows,
                    esc(&two.1)
                ));
            }
        }
    }
    None
}

pub fn run(ctx: &Ctx, rep: &mut Report, property: &str, part: &str, oracle: &str, cuts: bool) {
    let t0 = std::time::Instant::now();
    let k = ctx.tier.pick(4, 5);
    let all = strings(k, &['\x1b', '\u{9b}']);
    let bad: Vec<(String, String)> = all
        .par_iter()
        .filter_map(|s| match guarded(|| judge(s, cuts)) {
            Ok(None) => None,
            Ok(Some(d)) => Some((s.clone(), d)),
            Err(p) => Some((s.clone(), format!("panic: {}", p))),
        })
        .collect();
    let runs = all.len() as u64 * if cuts { 5 + k as u64 } else { 5 };
    rep.evaluations += runs;
    rep.transitions += runs;
    rep.traces_validated += all.len() as u64;
    rep.distinct_nontrivial += all.len() as u64;
    rep.parts.push(json!({"part":part,"tokens":TOKENS.len(),"max_len":k,"longer_after_ESC_and_CSI":k+1,"strings":all.len(),"runs":runs,"violating":bad.len(),"wall_s":t0.elapsed().as_secs_f64()}));
    println!("part {}: {} strings of <= {} characters over {} class representatives, {} violating ({:.1}s)", part, all.len(), k + 1, TOKENS.len(), bad.len(), t0.elapsed().as_secs_f64());
    let mut sorted = bad;
    sorted.sort_by_key(|(s, _)| (s.chars().count(), s.clone()));
    for (s, d) in sorted.iter().take(3) {
        emit_violation(ctx, rep, property, json!({"part":part,"input":esc(s),"input_raw":s,"oracle":oracle,"observed":d}));
    }
    if sorted.len() > 3 {
        rep.violations += sorted.len() as u64 - 3;
    }
}

pub fn replay(v: &serde_json::Value, cuts: bool) -> bool {
    let s = v["input_raw"].as_str().unwrap_or("");
    let r = judge(s, cuts);
    println!("{:?}", r);
    r.is_some()
}
