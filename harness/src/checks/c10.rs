//! C10 — resizing keeps the logical text and the cursor's place in it.

use super::common::geometry_broken;
use crate::alphabets::*;
use crate::engine::{Out, System};
use crate::logical::*;
use crate::obs::{fingerprint, obs_full};
use crate::ops::Cmd::*;
use crate::ops::*;
use crate::report::*;
use avt::Vt;
use serde_json::Value;

pub struct Sys {
    pub sizes: Vec<(usize, usize)>,
    pub chain: usize,
}

fn resize_checked(vt: &mut Vt, c: usize, r: usize, out: &mut Out, trail: &str) -> bool {
    let pre = logical(&obs_full(vt));
    let _ = vt.resize(c, r);
    out.count("resizes_checked");
    if let Some(why) = geometry_broken(vt, (c, r)) {
        out.violate("C10", "geometry-after-resize", format!("{} -> {}x{}: {}", trail, c, r, why));
        return false;
    }
    let post = logical(&obs_full(vt));
    if pre.lines.iter().any(|l| l.len() > 0) {
        out.count("resizes_with_content");
    }
    if let Err(why) = resize_relation(&pre, &post, true) {
        out.violate("C10", "resize-relation", format!("{} -> {}x{}: {}", trail, c, r, why));
        return false;
    }
    true
}

impl System for Sys {
    type St = Vt;
    fn init(&self, cfg: &Cfg) -> Vt {
        cfg.build()
    }
    fn step(&self, _cfg: &Cfg, vt: &mut Vt, op: &Op, out: Option<&mut Out>) {
        let _ = apply(vt, op);
        if let Some(out) = out {
            out.obs_hash = Some(crate::obs::hash_obs(&obs_full(vt)));
        }
    }
    fn key(&self, vt: &Vt) -> u128 {
        fingerprint(vt)
    }
    fn on_state(&self, cfg: &Cfg, _h: &[&Op], _vt: &mut Vt, rebuild: &dyn Fn() -> Vt, out: &mut Out) {
        for &(c1, r1) in &self.sizes {
            if (c1, r1) == (cfg.cols, cfg.rows) {
                continue;
            }
            let mut v = rebuild();
            let t1 = format!("{}x{}", cfg.cols, cfg.rows);
            if !resize_checked(&mut v, c1, r1, out, &t1) {
                return;
            }
            if self.chain >= 2 {
                for &(c2, r2) in &self.sizes {
                    if (c2, r2) == (c1, r1) {
                        continue;
                    }
                    let mut v2 = rebuild();
                    let _ = v2.resize(c1, r1);
                    let t2 = format!("{}x{} -> {}x{}", cfg.cols, cfg.rows, c1, r1);
                    if !resize_checked(&mut v2, c2, r2, out, &t2) {
                        return;
                    }
                }
            }
        }
    }
}

fn alpha(_cfg: &Cfg) -> Vec<Op> {
    vec![
        t("a"),
        t("bcd"),
        t(" "),
        t("漢"),      // double-width character (one cell in avt)
        t("\u{301}"), // zero-width combining mark (one cell in avt)
        c(crlf()),
        c(Lf),
        c(Cr),
        c(Cuu(None)),
        c(Cuf(None)),
        c(Cub(None)),
        c(Cup(None, None)),
        c(Cup(Some(99), Some(99))),
        c(El(None)),
        c(Ech(None)),
        c(Dch(None)),
        c(Ich(None)),
        c(Il(None)),
        c(Dl(None)),
        c(sgr1(41)),
        c(sgr1(0)),
        c(Ri),
        c(Ed(Some(1))),
        c(Decsc),
    ]
}

macro_rules! parts {
    ($tier:expr, $sys:expr) => {{
        let tier: Tier = $tier;
        Part {
            name: "seed-bfs+resize-chains",
            sys: $sys,
            cfgs: match tier {
                Tier::Quick => cfgs(&[(3, 2), (2, 3), (1, 2)], &[None]),
                Tier::Thorough => cfgs(&[(3, 2), (2, 2), (4, 3), (1, 2), (2, 3)], &[None]),
            },
            alphabet: &alpha,
            depth: tier.pick(5, 7),
            seconds: tier.pick(35.0, 2400.0),
            validated: true,
            nontrivial: Some("resizes_with_content"),
        }
    }};
}

/// "whatever the modes": the same oracle from states in which every mode, the scroll
/// region and the cursor visibility are away from their defaults
fn alpha_modes(cfg: &Cfg) -> Vec<Op> {
    let rows = cfg.rows as u32;
    vec![
        t("bcd"),
        t("a"),
        c(crlf()),
        c(Cup(Some(99), Some(99))),
        c(Cup(Some(2), Some(2))),
        c(Cuu(None)),
        c(Cub(None)),
        c(Decstbm(Some(2), Some(rows))),
        c(Decstbm(Some(1), Some(rows.saturating_sub(1).max(2)))),
        c(DecSet(vec![6])),
        c(DecRst(vec![25])),
        c(DecRst(vec![7])),
        c(Seq(vec![Sm(vec![4]), Sm(vec![20]), DecSet(vec![1]), Desig(0, true)])),
        c(sgr1(41)),
    ]
}

fn modes_part<'a>(tier: Tier, sys: &'a Sys) -> Part<'a, Sys> {
    Part {
        name: "modes-and-region-dont-matter",
        sys,
        cfgs: match tier {
            Tier::Quick => cfgs(&[(3, 3)], &[None]),
            Tier::Thorough => cfgs(&[(3, 3), (4, 3), (2, 4)], &[None]),
        },
        alphabet: &alpha_modes,
        depth: tier.pick(5, 7),
        seconds: tier.pick(20.0, 2400.0),
        validated: true,
        nontrivial: Some("resizes_with_content"),
    }
}

/// Long buffers: numbered logical lines, every third one wrapping over three rows, so that
/// the buffer holds every row count from a handful up to beyond 2^13 - each count around a
/// power of two, and every count up to 300; then a widening, a narrowing and a height
/// change, each judged by the same relational oracle.
fn long_buffers(ctx: &Ctx, rep: &mut Report) {
    use rayon::prelude::*;
    let mut counts: Vec<usize> = (1..=ctx.tier.pick(300usize, 1500usize)).collect();
    for p in 9..=ctx.tier.pick(13u32, 15u32) {
        let b = 1usize << p;
        // (each count adds 1 or 3 rows: a window of 12 counts puts a row of every kind on the boundary)
        for n in b / 2..b / 2 + 12 {
            counts.push(n);
        }
        for n in (b * 3 / 5).saturating_sub(6)..b * 3 / 5 + 6 {
            counts.push(n);
        }
        for n in b.saturating_sub(12)..b + 4 {
            counts.push(n);
        }
    }
    // far beyond: "however much has scrolled into the scrollback" (no history is too old to
    // be re-wrapped)
    counts.extend(ctx.tier.pick(vec![65_536, 100_001, 131_073], vec![65_535, 65_536, 65_537, 100_000, 100_001, 131_072, 131_073, 262_145, 524_289]));
    counts.sort();
    counts.dedup();
    let bad: Vec<(usize, String)> = counts
        .par_iter()
        .filter_map(|&n| {
            let r = crate::engine::guarded(|| {
                let (cols, rows) = (20usize, 10usize);
                let mut text = String::new();
                for i in 0..n {
                    if i % 3 == 0 {
                        text.push_str(&format!("{:05} abcdefghijklmnopqrstuvwxyzABCDEFGHIJKLMNOPQRSTUVW\r\n", i));
                    } else {
                        text.push_str(&format!("{:05}\r\n", i));
                    }
                }
                text.push_str("end");
                // second shape of history: a long run of SHORT lines first (nothing in them for a
                // width change to do), then lines that wrap inside a run of typed blanks
                let mut text2 = String::new();
                for i in 0..n {
                    if i % 500 == 499 || i + 3 >= n {
                        text2.push_str(&format!("n{}                      v{}\r\nkey{}                  = {}\r\n", i % 10, i, i % 7, i));
                    } else {
                        text2.push_str(&format!("l{}\r\n", i % 1000));
                    }
                }
                for (c2, r2) in [(17usize, 10usize), (13, 10), (25, 4)] {
                    let mut vt = build_vt(cols, rows, None);
                    let _ = vt.feed_str(&text2);
                    let mut out = Out::default();
                    let t = format!("{} short lines and padded columns at 20x10", n);
                    if !resize_checked(&mut vt, c2, r2, &mut out, &t) || !resize_checked(&mut vt, cols, rows, &mut out, &t) {
                        let v = &out.violations[0];
                        let d: String = v.detail.chars().take(300).collect();
                        return Some(format!("(short lines, then padded columns; to {}x{} and back) {}: {}", c2, r2, v.oracle, d));
                    }
                }
                // third shape: a window that grows over a lot of history (rows come BACK from
                // the scrollback), one of those rows gets longer text, then a width change
                if n >= 20 {
                    let mut grows = vec![rows * 2 + 1, rows * 6, n.min(200) + rows];
                    if n <= 2000 {
                        // (the whole history back on the screen)
                        grows.push(n * 2 + rows);
                    }
                    for grow in grows {
                        let mut vt = build_vt(cols, rows, None);
                        if n <= 2000 {
                            for piece in text.split_inclusive('\n') {
                                let _ = vt.feed_str(piece);
                            }
                        } else {
                            let _ = vt.feed_str(&text);
                        }
                        let _ = vt.resize(cols, grow);
                        // (several rows, short ones among them, get text that is longer than what
                        // they held - and still fits the row)
                        let mut edit = String::new();
                        for r in [2usize, 3, 5, grow / 7, grow / 3 + 1, grow / 3 + 2, grow / 2, grow / 2 + 1] {
                            if r >= 1 && r < grow {
                                edit.push_str(&format!("\x1b[{};1Hrow grown a lot {:03}", r, r % 1000));
                            }
                        }
                        edit.push_str(&format!("\x1b[{};3H", grow));
                        let _ = vt.feed_str(&edit);
                        let mut out = Out::default();
                        let t = format!("{} lines at 20x10, grown to 20x{}, a row rewritten", n, grow);
                        if !resize_checked(&mut vt, 9, grow, &mut out, &t) || !resize_checked(&mut vt, 31, rows, &mut out, &t) {
                            let v = &out.violations[0];
                            let d: String = v.detail.chars().take(300).collect();
                            return Some(format!("(grown to {} rows, a row rewritten, then narrowed) {}: {}", grow, v.oracle, d));
                        }
                    }
                }
                for (c2, r2) in [(33usize, 10usize), (7, 10), (20, 4), (40, 3)] {
                    let mut vt = build_vt(cols, rows, None);
                    let _ = vt.feed_str(&text);
                    let mut out = Out::default();
                    let t = format!("{} lines at 20x10", n);
                    if !resize_checked(&mut vt, c2, r2, &mut out, &t) {
                        let v = &out.violations[0];
                        let d: String = v.detail.chars().take(300).collect();
                        return Some(format!("{}: {}", v.oracle, d));
                    }
                    // and back
                    if !resize_checked(&mut vt, cols, rows, &mut out, &t) {
                        let v = &out.violations[0];
                        let d: String = v.detail.chars().take(300).collect();
                        return Some(format!("(back to 20x10) {}: {}", v.oracle, d));
                    }
                }
                None
            });
            match r {
                Ok(None) => None,
                Ok(Some(d)) => Some((n, d)),
                Err(p) => Some((n, format!("panic: {}", p))),
            }
        })
        .collect();
    let runs = counts.len() as u64 * 8;
    rep.evaluations += runs;
    rep.traces_validated += runs;
    rep.transitions += runs;
    rep.distinct_nontrivial += counts.len() as u64;
    rep.parts.push(serde_json::json!({"part":"long-buffers","line_counts":counts.len(),"max_lines":counts.iter().max(),"resizes":runs,"violating":bad.len()}));
    println!("part long-buffers: {} line counts up to {}, {} violating", counts.len(), counts.iter().max().unwrap_or(&0), bad.len());
    for (n, d) in bad.iter().take(3) {
        emit_violation(ctx, rep, "C10", serde_json::json!({"part":"long-buffers","lines":n,"oracle":"resize-relation","observed":d}));
    }
    if bad.len() > 3 {
        rep.violations += bad.len() as u64 - 3;
    }
}

/// Wide rows: at EVERY width 2..=W, rows whose text starts after every possible run of
/// leading blanks (and rows that end in blanks after a soft wrap), the cursor inside the
/// text, then narrower / wider / much wider and back. Same relational oracle. Block-wise
/// scans of a row (8, 16, 32, 64 cells at a time) have all their remainders here.
fn wide_rows(ctx: &Ctx, rep: &mut Report) {
    use rayon::prelude::*;
    let wmax = ctx.tier.pick(140usize, 300usize);
    let widths: Vec<usize> = (2..=wmax).collect();
    let cases: u64 = widths.iter().map(|&w| w as u64).sum();
    let bad: Vec<(usize, String)> = widths
        .par_iter()
        .filter_map(|&w| {
            let r = crate::engine::guarded(|| {
                for indent in 0..w {
                    // row 1: `indent` blanks then "hello" (wraps when it does not fit);
                    // row 2..: a full row of letters, soft-wrapped into blanks + "tail"
                    let text = format!("\x1b[1;{}Hhello\r\n{}{}tail\r\nz\x1b[1;{}H", indent + 1, "A".repeat(w), " ".repeat(indent % 11), (indent + 3).min(w));
                    let targets = [(w.max(3) - 1, 4usize), (w / 2 + 1, 4), (w + 5, 4), (w * 2 + 1, 3), (12.min(w + 1), 5)];
                    for (c2, r2) in targets {
                        let mut vt = build_vt(w, 4, None);
                        let _ = vt.feed_str(&text);
                        let mut out = Out::default();
                        let t = format!("width {} indent {}", w, indent);
                        if !resize_checked(&mut vt, c2, r2, &mut out, &t) || !resize_checked(&mut vt, w, 4, &mut out, &t) {
                            let v = &out.violations[0];
                            let d: String = v.detail.chars().take(400).collect();
                            return Some(format!("{}x4, text after {} blanks, to {}x{} and back: {}: {}", w, indent, c2, r2, v.oracle, d));
                        }
                    }
                }
                None
            });
            match r {
                Ok(None) => None,
                Ok(Some(d)) => Some((w, d)),
                Err(p) => Some((w, format!("width {}: panic: {}", w, p))),
            }
        })
        .collect();
    let runs = cases * 10;
    rep.evaluations += runs;
    rep.traces_validated += runs;
    rep.transitions += runs;
    rep.distinct_nontrivial += cases;
    rep.parts.push(serde_json::json!({"part":"wide-rows","widths":widths.len(),"max_width":wmax,"width_x_indent_cases":cases,"resizes":runs,"violating":bad.len()}));
    println!("part wide-rows: every width 2..={} x every indentation ({} cases) x 5 resize pairs, {} violating", wmax, cases, bad.len());
    let mut sorted = bad;
    sorted.sort();
    for (w, d) in sorted.iter().take(2) {
        emit_violation(ctx, rep, "C10", serde_json::json!({"part":"wide-rows","width":w,"oracle":"resize-relation","observed":d}));
    }
    if sorted.len() > 2 {
        rep.violations += sorted.len() as u64 - 2;
    }
}

/// Densely filled screens narrowed to the extreme: the text below the cursor re-wraps into
/// tens of thousands of rows; the cursor stays on its character wherever it was (top,
/// middle, bottom), whatever has to be dropped below it.
fn dense_extreme_narrowing(ctx: &Ctx, rep: &mut Report) {
    use rayon::prelude::*;
    let sizes: Vec<(usize, usize)> = ctx.tier.pick(vec![(40, 30), (100, 50), (300, 200), (250, 500)], vec![(40, 30), (100, 50), (300, 200), (250, 500), (400, 300), (132, 1000), (1000, 150)]);
    let mut cases: Vec<((usize, usize), (usize, usize), (usize, usize))> = vec![];
    for &(w, h) in &sizes {
        for cur in [(0usize, 0usize), (w / 2, 3), (w - 1, h / 2), (1, h - 2), (w - 1, h - 1)] {
            for to in [(1usize, h), (1, 10), (2, h), (3, 7), (w / 7 + 1, h)] {
                cases.push(((w, h), cur, to));
            }
        }
    }
    let bad: Vec<String> = cases
        .par_iter()
        .filter_map(|&((w, h), (cc, cr), (tw, th))| {
            let r = crate::engine::guarded(|| {
                let mut vt = build_vt(w, h, None);
                let mut s = String::new();
                for r in 0..h {
                    // rows alternate between soft-wrapped full rows and shorter hard-ended ones
                    let len = if r % 3 == 2 { w - 1 - r % 5 } else { w };
                    for k in 0..len {
                        s.push(char::from_u32('a' as u32 + ((r * 7 + k) % 26) as u32).unwrap());
                    }
                    if r % 3 == 2 && r + 1 < h {
                        s.push_str("\r\n");
                    }
                }
                s.push_str(&format!("\x1b[{};{}H", cr + 1, cc + 1));
                let _ = vt.feed_str(&s);
                let mut out = Out::default();
                let t = format!("{}x{} full of text, cursor at column {} row {}", w, h, cc, cr);
                if !resize_checked(&mut vt, tw, th, &mut out, &t) || !resize_checked(&mut vt, w, h, &mut out, &t) {
                    let v = &out.violations[0];
                    let d: String = v.detail.chars().take(400).collect();
                    return Some(format!("{} resized to {}x{} and back: {}: {}", t, tw, th, v.oracle, d));
                }
                None
            });
            match r {
                Ok(x) => x,
                Err(p) => Some(format!("{}x{} cursor ({}, {}) to {}x{}: panic: {}", w, h, cc, cr, tw, th, p)),
            }
        })
        .collect();
    let runs = cases.len() as u64 * 2;
    rep.evaluations += runs;
    rep.traces_validated += runs;
    rep.transitions += runs;
    rep.distinct_nontrivial += cases.len() as u64;
    rep.parts.push(serde_json::json!({"part":"dense-screens-extreme-narrowing","sizes":sizes.iter().map(|s| format!("{}x{}", s.0, s.1)).collect::<Vec<_>>(),"cases":cases.len(),"resizes":runs,"violating":bad.len()}));
    println!("part dense-screens-extreme-narrowing: {} (size, cursor, target) cases, {} violating", cases.len(), bad.len());
    if let Some(d) = bad.first() {
        emit_violation(ctx, rep, "C10", serde_json::json!({"part":"dense-screens-extreme-narrowing","oracle":"resize-relation","observed":d}));
        rep.violations += bad.len() as u64 - 1;
    }
}

/// Resizes as operations LIKE ANY OTHER, in the middle of the history: edit, resize, edit,
/// resize ... - whatever a resize remembers (an anchor, an index of the first wrapped row, a
/// cached position) has to survive or be dropped correctly when later edits, deletions and
/// partial scrolls move things. Every resize transition is judged by the relational oracle.
pub struct MixSys;
impl System for MixSys {
    type St = Vt;
    fn init(&self, cfg: &Cfg) -> Vt {
        cfg.build()
    }
    fn step(&self, cfg: &Cfg, vt: &mut Vt, op: &Op, out: Option<&mut Out>) {
        if let Cmd::Resize(c, r) = op.cmd {
            match out {
                Some(out) => {
                    let t = format!("history on {}x{}, now {}x{}", cfg.cols, cfg.rows, vt.size().0, vt.size().1);
                    let _ = resize_checked(vt, c, r, out, &t);
                    out.obs_hash = Some(crate::obs::hash_obs(&obs_full(vt)));
                }
                None => {
                    let _ = vt.resize(c, r);
                }
            }
        } else {
            let _ = apply(vt, op);
            if let Some(out) = out {
                out.obs_hash = Some(crate::obs::hash_obs(&obs_full(vt)));
            }
        }
    }
    fn key(&self, vt: &Vt) -> u128 {
        fingerprint(vt)
    }
    fn has_state_hook(&self) -> bool {
        false
    }
}

fn alpha_mix(cfg: &Cfg) -> Vec<Op> {
    let (w, h) = (cfg.cols, cfg.rows);
    let over: String = "abcdefghijklmnopqrstuvwxyz".chars().take(w + w / 2 + 1).collect();
    vec![
        t("ab"),
        c(Seq(vec![Cup(Some(2), Some(1)), Text(over.clone())])),
        Op::text(&over),
        c(crlf()),
        c(Seq(vec![Cup(Some(1), Some(1)), Dl(None)])),
        c(Seq(vec![Cup(Some(2), Some(1)), Dl(None)])),
        c(Seq(vec![Cup(Some(99), Some(1)), Lf, Lf, Lf])),
        c(Seq(vec![Cup(Some(99), Some(1)), lfs(12)])),
        c(Seq(vec![Decstbm(Some(2), Some(h as u32)), Cup(Some(99), Some(1)), Lf, Decstbm(None, None)])),
        c(Cuu(None)),
        c(Cud(None)),
        c(Dch(None)),
        c(Cup(Some(2), Some(3))),
        c(El(Some(1))),
        Op::resize(w + 1, h),
        Op::resize(w.max(3) - 1, h),
        Op::resize(w * 2, h),
        Op::resize(w, h + 1),
        Op::resize(w, h * 2 + 2),
        Op::resize(w, h),
    ]
}

fn mix_part(tier: Tier) -> Part<'static, MixSys> {
    Part {
        name: "resizes-in-the-middle-of-histories",
        sys: &MixSys,
        cfgs: match tier {
            Tier::Quick => cfgs(&[(4, 4)], &[None]),
            Tier::Thorough => cfgs(&[(4, 4), (3, 3), (8, 5)], &[None]),
        },
        alphabet: &alpha_mix,
        depth: tier.pick(6, 7),
        seconds: tier.pick(25.0, 1800.0),
        validated: true,
        nontrivial: Some("resizes_with_content"),
    }
}

fn make_sys(_tier: Tier) -> Sys {
    Sys {
        sizes: S4.to_vec(),
        chain: 2,
    }
}

pub fn run(ctx: &Ctx) -> Report {
    let mut rep = Report::new();
    let sys = make_sys(ctx.tier);
    let p = parts!(ctx.tier, &sys);
    run_part(ctx, &mut rep, &p);
    let sys1 = Sys { sizes: S4.to_vec(), chain: 1 };
    run_part(ctx, &mut rep, &modes_part(ctx.tier, &sys1));
    run_part(ctx, &mut rep, &mix_part(ctx.tier));
    long_buffers(ctx, &mut rep);
    wide_rows(ctx, &mut rep);
    dense_extreme_narrowing(ctx, &mut rep);
    let n = rep.counters.get("seed-bfs+resize-chains.resizes_checked").copied().unwrap_or(0)
        + rep.counters.get("modes-and-region-dont-matter.resizes_checked").copied().unwrap_or(0);
    rep.evaluations += n;
    rep.traces_validated = n;
    rep.rule = "seed states = all states reachable by the editing alphabet (texts incl. a double-width and a zero-width character, CRLF, cursor moves, EL/ECH/DCH/ICH/IL/DL/ED1, SGR, RI, DECSC) up to the depth bound on unlimited-scrollback primary screens; from every seed every chain of <=2 resizes over the 10 sizes 1x1..4x3; each single resize is judged by the relational oracle on logical lines (rows joined on wrap marks, cells incl. pens, trailing default blanks ignored); non-trivial = resizes of a non-empty buffer; second part: the same from states with scroll regions, origin mode, hidden cursor, auto-wrap off, insert / new-line / cursor-key modes and a drawing charset (14 ops, 3x3, every single resize); third part: buffers of 1..300 lines (thorough 1500) and around every power of two up to 2^13 (2^15) rows, widened, narrowed, shortened and back".into();
    rep.assumptions = vec![
        "primary screen, unlimited scrollback (as the statement requires)".into(),
        "'on a character of the text' = cursor offset inside the trimmed logical line".into(),
    ];
    rep
}

pub fn replay(ctx: &Ctx, v: &Value) -> bool {
    let tier = if v["tier"] == "thorough" { Tier::Thorough } else { Tier::Quick };
    let sys = make_sys(tier);
    if v["part"] == "resizes-in-the-middle-of-histories" {
        return replay_part(ctx, &mix_part(tier), v);
    }
    if v["part"] == "dense-screens-extreme-narrowing" {
        let mut rep = Report::new();
        let c2 = Ctx { id: ctx.id.clone(), tier: if v["tier"] == "thorough" { Tier::Thorough } else { Tier::Quick }, seed: 0, start: ctx.start, known: ctx.known.clone(), replay_dir: ctx.replay_dir.clone() };
        dense_extreme_narrowing(&c2, &mut rep);
        return rep.violations > 0;
    }
    if v["part"] == "wide-rows" {
        let mut rep = Report::new();
        let c2 = Ctx { id: ctx.id.clone(), tier: if v["tier"] == "thorough" { Tier::Thorough } else { Tier::Quick }, seed: 0, start: ctx.start, known: ctx.known.clone(), replay_dir: ctx.replay_dir.clone() };
        wide_rows(&c2, &mut rep);
        return rep.violations > 0;
    }
    if v["part"] == "long-buffers" {
        let mut rep = Report::new();
        let c2 = Ctx { id: ctx.id.clone(), tier: if v["tier"] == "thorough" { Tier::Thorough } else { Tier::Quick }, seed: 0, start: ctx.start, known: ctx.known.clone(), replay_dir: ctx.replay_dir.clone() };
        long_buffers(&c2, &mut rep);
        return rep.violations > 0;
    }
    if v["part"] == "modes-and-region-dont-matter" {
        let sys1 = Sys { sizes: S4.to_vec(), chain: 1 };
        return replay_part(ctx, &modes_part(tier, &sys1), v);
    }
    let p = parts!(tier, &sys);
    replay_part(ctx, &p, v)
}
