//! C10 — resizing keeps the logical text and the cursor's place in it.

use super::common::geometry_broken;
use crate::alphabets::*;
use crate::engine::{Out, System};
use crate::logical::*;
use crate::obs::{fingerprint, obs_full};
use crate::ops::Cmd::*;
use crate::ops::*;
use crate::report::*;
use avt::Vt;
use serde_json::Value;

pub struct Sys {
    pub sizes: Vec<(usize, usize)>,
    pub chain: usize,
}

fn resize_checked(vt: &mut Vt, c: usize, r: usize, out: &mut Out, trail: &str) -> bool {
    let pre = logical(&obs_full(vt));
    let _ = vt.resize(c, r);
    out.count("resizes_checked");
    if let Some(why) = geometry_broken(vt, (c, r)) {
        out.violate("C10", "geometry-after-resize", format!("{} -> {}x{}: {}", trail, c, r, why));
        return false;
    }
    let post = logical(&obs_full(vt));
    if pre.lines.iter().any(|l| l.len() > 0) {
        out.count("resizes_with_content");
    }
    if let Err(why) = resize_relation(&pre, &post, true) {
        out.violate("C10", "resize-relation", format!("{} -> {}x{}: {}", trail, c, r, why));
        return false;
    }
    true
}

impl System for Sys {
    type St = Vt;
    fn init(&self, cfg: &Cfg) -> Vt {
        cfg.build()
    }
    fn step(&self, _cfg: &Cfg, vt: &mut Vt, op: &Op, out: Option<&mut Out>) {
        let _ = apply(vt, op);
        if let Some(out) = out {
            out.obs_hash = Some(crate::obs::hash_obs(&obs_full(vt)));
        }
    }
    fn key(&self, vt: &Vt) -> u128 {
        fingerprint(vt)
    }
    fn on_state(&self, cfg: &Cfg, _h: &[&Op], _vt: &mut Vt, rebuild: &dyn Fn() -> Vt, out: &mut Out) {
        for &(c1, r1) in &self.sizes {
            if (c1, r1) == (cfg.cols, cfg.rows) {
                continue;
            }
            let mut v = rebuild();
            let t1 = format!("{}x{}", cfg.cols, cfg.rows);
            if !resize_checked(&mut v, c1, r1, out, &t1) {
                return;
            }
            if self.chain >= 2 {
                for &(c2, r2) in &self.sizes {
                    if (c2, r2) == (c1, r1) {
                        continue;
                    }
                    let mut v2 = rebuild();
                    let _ = v2.resize(c1, r1);
                    let t2 = format!("{}x{} -> {}x{}", cfg.cols, cfg.rows, c1, r1);
                    if !resize_checked(&mut v2, c2, r2, out, &t2) {
                        return;
                    }
                }
            }
        }
    }
}

fn alpha(_cfg: &Cfg) -> Vec<Op> {
    vec![
        t("a"),
        t("bcd"),
        t(" "),
        t("漢"),      // double-width character (one cell in avt)
        t("\u{301}"), // zero-width combining mark (one cell in avt)
        c(crlf()),
        c(Lf),
        c(Cr),
        c(Cuu(None)),
        c(Cuf(None)),
        c(Cub(None)),
        c(Cup(None, None)),
        c(Cup(Some(99), Some(99))),
        c(El(None)),
        c(Ech(None)),
        c(Dch(None)),
        c(Ich(None)),
        c(Il(None)),
        c(Dl(None)),
        c(sgr1(41)),
        c(sgr1(0)),
        c(Ri),
        c(Ed(Some(1))),
        c(Decsc),
    ]
}

macro_rules! parts {
    ($tier:expr, $sys:expr) => {{
        let tier: Tier = $tier;
        Part {
            name: "seed-bfs+resize-chains",
            sys: $sys,
            cfgs: match tier {
                Tier::Quick => cfgs(&[(3, 2), (2, 3), (1, 2)], &[None]),
                Tier::Thorough => cfgs(&[(3, 2), (2, 2), (4, 3), (1, 2), (2, 3)], &[None]),
            },
            alphabet: &alpha,
            depth: tier.pick(5, 7),
            seconds: tier.pick(35.0, 2400.0),
            validated: true,
            nontrivial: Some("resizes_with_content"),
        }
    }};
}

/// "whatever the modes": the same oracle from states in which every mode, the scroll
/// region and the cursor visibility are away from their defaults
fn alpha_modes(cfg: &Cfg) -> Vec<Op> {
    let rows = cfg.rows as u32;
    vec![
        t("bcd"),
        t("a"),
        c(crlf()),
        c(Cup(Some(99), Some(99))),
        c(Cup(Some(2), Some(2))),
        c(Cuu(None)),
        c(Cub(None)),
        c(Decstbm(Some(2), Some(rows))),
        c(Decstbm(Some(1), Some(rows.saturating_sub(1).max(2)))),
        c(DecSet(vec![6])),
        c(DecRst(vec![25])),
        c(DecRst(vec![7])),
        c(Seq(vec![Sm(vec![4]), Sm(vec![20]), DecSet(vec![1]), Desig(0, true)])),
        c(sgr1(41)),
    ]
}

fn modes_part<'a>(tier: Tier, sys: &'a Sys) -> Part<'a, Sys> {
    Part {
        name: "modes-and-region-dont-matter",
        sys,
        cfgs: match tier {
            Tier::Quick => cfgs(&[(3, 3)], &[None]),
            Tier::Thorough => cfgs(&[(3, 3), (4, 3), (2, 4)], &[None]),
        },
        alphabet: &alpha_modes,
        depth: tier.pick(5, 7),
        seconds: tier.pick(20.0, 2400.0),
        validated: true,
        nontrivial: Some("resizes_with_content"),
    }
}

fn make_sys(_tier: Tier) -> Sys {
    Sys {
        sizes: S4.to_vec(),
        chain: 2,
    }
}

pub fn run(ctx: &Ctx) -> Report {
    let mut rep = Report::new();
    let sys = make_sys(ctx.tier);
    let p = parts!(ctx.tier, &sys);
    run_part(ctx, &mut rep, &p);
    let sys1 = Sys { sizes: S4.to_vec(), chain: 1 };
    run_part(ctx, &mut rep, &modes_part(ctx.tier, &sys1));
    let n = rep.counters.get("seed-bfs+resize-chains.resizes_checked").copied().unwrap_or(0)
        + rep.counters.get("modes-and-region-dont-matter.resizes_checked").copied().unwrap_or(0);
    rep.evaluations += n;
    rep.traces_validated = n;
    rep.rule = "seed states = all states reachable by the editing alphabet (texts incl. a double-width and a zero-width character, CRLF, cursor moves, EL/ECH/DCH/ICH/IL/DL/ED1, SGR, RI, DECSC) up to the depth bound on unlimited-scrollback primary screens; from every seed every chain of <=2 resizes over the 10 sizes 1x1..4x3; each single resize is judged by the relational oracle on logical lines (rows joined on wrap marks, cells incl. pens, trailing default blanks ignored); non-trivial = resizes of a non-empty buffer; second part: the same from states with scroll regions, origin mode, hidden cursor, auto-wrap off, insert / new-line / cursor-key modes and a drawing charset (14 ops, 3x3, every single resize)".into();
    rep.assumptions = vec![
        "primary screen, unlimited scrollback (as the statement requires)".into(),
        "'on a character of the text' = cursor offset inside the trimmed logical line".into(),
    ];
    rep
}

pub fn replay(ctx: &Ctx, v: &Value) -> bool {
    let tier = if v["tier"] == "thorough" { Tier::Thorough } else { Tier::Quick };
    let sys = make_sys(tier);
    if v["part"] == "modes-and-region-dont-matter" {
        let sys1 = Sys { sizes: S4.to_vec(), chain: 1 };
        return replay_part(ctx, &modes_part(tier, &sys1), v);
    }
    let p = parts!(tier, &sys);
    replay_part(ctx, &p, v)
}
