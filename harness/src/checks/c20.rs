//! C20 — control strings and unimplemented sequences are inert.

use crate::alphabets::*;
use crate::engine::{Out, System};
use crate::obs::{fingerprint, obs, obs_full};
use crate::ops::*;
use crate::probes::battery;
use crate::report::*;
use avt::parser::{Parser, State};
use avt::Vt;
use serde_json::{json, Value};

pub struct Sys {
    pub inert: Vec<String>,
    pub cont_everywhere: bool,
}

fn payloads(maxlen: usize, osc: bool) -> Vec<String> {
    let mut set: Vec<char> = vec!['A', '5', ';', ':', '?', ' ', '~', '\x7f', 'é', '漢', '\0', '\n', '\x1f'];
    if !osc {
        set.push('\x07');
    }
    let mut out = vec![String::new()];
    let mut level = vec![String::new()];
    for _ in 0..maxlen {
        let mut next = vec![];
        for s in &level {
            for &ch in &set {
                let mut x = s.clone();
                x.push(ch);
                next.push(x);
            }
        }
        out.extend(next.iter().cloned());
        level = next;
    }
    out
}

/// only the control strings (family 1), for the parser-level sweep
pub fn inert_strings_only(maxlen: usize) -> Vec<String> {
    let mut v: Vec<String> = vec![];
    let kinds: [(&str, &str, bool); 5] = [
        ("\x1b]", "\u{9d}", true),
        ("\x1bP", "\u{90}", false),
        ("\x1bX", "\u{98}", false),
        ("\x1b^", "\u{9e}", false),
        ("\x1b_", "\u{9f}", false),
    ];
    for (i7, i8, osc) in kinds {
        let pl = payloads(maxlen, osc);
        for intro in [i7, i8] {
            for p in &pl {
                v.push(format!("{}{}\x1b\\", intro, p));
                if osc {
                    v.push(format!("{}{}\x07", intro, p));
                } else {
                    v.push(format!("{}{}\u{9c}", intro, p));
                }
            }
        }
    }
    v
}

pub fn inert_inputs(maxlen: usize) -> Vec<String> {
    let mut v: Vec<String> = vec![];
    // 1. control strings
    let kinds: [(&str, &str, bool); 5] = [
        ("\x1b]", "\u{9d}", true),
        ("\x1bP", "\u{90}", false),
        ("\x1bX", "\u{98}", false),
        ("\x1b^", "\u{9e}", false),
        ("\x1b_", "\u{9f}", false),
    ];
    for (i7, i8, osc) in kinds {
        let pl = payloads(maxlen, osc);
        for intro in [i7, i8] {
            for p in &pl {
                v.push(format!("{}{}\x1b\\", intro, p));
                v.push(format!("{}{}\u{9c}", intro, p));
                if osc {
                    v.push(format!("{}{}\x07", intro, p));
                }
            }
        }
    }
    // realistic ones
    for s in crate::alphabets::KNOWN_FOREIGN {
        // (`CSI ? Pm h / l` with unimplemented numbers IS the implemented DECSET / DECRST with
        // an empty mode list: inert in effect - judged in `foreign-sequence-pairs` - but dispatched)
        if s.starts_with("\x1b[?") && (s.ends_with('h') || s.ends_with('l')) {
            continue;
        }
        v.push(s.to_string());
    }
    v.push("\x1b]8;;http://example.com\x1b\\".into());
    v.push("\x1b]0;window title\x07".into());
    v.push("\x1bPq\"1;1;10;10#0;2;0;0;0#0~~@@vv@@~~$-\x1b\\".into());
    v.push("\x1bP1$r0m\x1b\\".into());
    v.push("\x1b_Gf=24,s=1,v=1;AAAA\x1b\\".into());
    // 2. CSI with unimplemented final / private marker / intermediate
    let implemented_plain = "@ABCDEFGHIJKLMPSTWXZ`abdefghlmrstu";
    let mut prefixes: Vec<String> = vec!["".into(), "?".into(), "<".into(), "=".into(), ">".into(), "?$".into()];
    for i in 0x20u8..=0x2f {
        prefixes.push((i as char).to_string());
    }
    for fin in 0x40u8..=0x7e {
        let f = fin as char;
        for pre in &prefixes {
            let implemented = (pre.is_empty() && implemented_plain.contains(f))
                || (pre == "?" && (f == 'h' || f == 'l'))
                || (pre.ends_with('!') && f == 'p');
            if implemented {
                continue;
            }
            for params in ["", "1", "1;2"] {
                for intro in ["\x1b[", "\u{9b}"] {
                    // private markers come before the parameters, intermediates after
                    let (marker, inter): (String, String) = {
                        let mut m = String::new();
                        let mut i = String::new();
                        for ch in pre.chars() {
                            if ('<'..='?').contains(&ch) {
                                m.push(ch)
                            } else {
                                i.push(ch)
                            }
                        }
                        (m, i)
                    };
                    v.push(format!("{}{}{}{}{}", intro, marker, params, inter, f));
                }
            }
        }
    }
    // 3. unimplemented ESC sequences
    for fin in 0x30u8..=0x7e {
        let f = fin as char;
        if "78cDEHMPX[]^_".contains(f) {
            continue;
        }
        v.push(format!("\x1b{}", f));
    }
    for i in 0x20u8..=0x2f {
        let ic = i as char;
        if ic == '(' || ic == ')' {
            continue;
        }
        for fin in 0x30u8..=0x7e {
            let f = fin as char;
            if ic == '#' && f == '8' {
                continue;
            }
            v.push(format!("\x1b{}{}", ic, f));
        }
    }
    v.push("\x1b !/0".into());
    // 4. unassigned C0 / C1
    for cp in (0x00u32..=0x07).chain(0x10..=0x1a).chain(0x1c..=0x1f) {
        v.push(char::from_u32(cp).unwrap().to_string());
    }
    for cp in 0x80u32..=0x9f {
        if [0x84, 0x85, 0x88, 0x8d, 0x90, 0x98, 0x9b, 0x9d, 0x9e, 0x9f].contains(&cp) {
            continue;
        }
        v.push(char::from_u32(cp).unwrap().to_string());
    }
    v
}

/// parser-level part of the oracle: nothing dispatched, ground at the end
fn parser_inert(s: &str) -> Result<(), String> {
    match crate::engine::guarded(|| parser_inert_inner(s)) {
        Ok(r) => r,
        Err(p) => Err(format!("panic: {}", p)),
    }
}

fn parser_inert_inner(s: &str) -> Result<(), String> {
    let mut p = Parser::new();
    for ch in s.chars() {
        if let Some(f) = p.feed(ch) {
            return Err(format!("parser dispatched {:?} at {:?}", f, ch));
        }
    }
    if p.state != State::Ground {
        return Err(format!("parser ends in {:?}", p.state));
    }
    // "back in ground state": what follows is understood exactly as by a parser that
    // never saw the inert input - 7- and 8-bit forms of every sequence kind
    let got: Vec<String> = CONTINUATION.chars().map(|ch| format!("{:?}", p.feed(ch))).collect();
    let want = fresh_continuation();
    if &got != want {
        let i = got.iter().zip(want.iter()).position(|(a, b)| a != b).unwrap_or(0);
        return Err(format!(
            "afterwards the parser differs from a fresh one: character {} of the continuation {:?} gives {} instead of {}",
            i,
            CONTINUATION.chars().nth(i),
            got[i],
            want[i]
        ));
    }
    Ok(())
}

/// fed after every inert input: text, every C0 that is executed, 7- and 8-bit CSI / OSC / DCS /
/// SOS / APC with both terminators, ESC sequences, charset designations, both save / restore
/// spellings, modes, SGR forms, DECSTR, a non-ASCII and a C1 control
pub const CONTINUATION: &str = "a\n\r\x08\t\x0e\x0f\u{9b}5;6Hb\x1b[1;2mc\u{9d}0;t\u{9c}d\x1b]0;t\x07e\u{90}q1\u{9c}f\x1bPq1\x1b\\g\u{98}s\u{9c}h\u{9f}s\x1b\\i\x1bM\u{84}\u{85}\u{88}\u{8d}\x1b[?25l\x1b[?6;7h\u{9b}?1049hj\x1b(0q\x1b)0\x1b(Bé\x1b[s\x1b[u\x1b7\x1b8\x1b[!p\x1b[4h\x1b[20l\x1b[38:2:1:2:3;48;5;9mk\x1b[2;3r\x1b[3b\x1b#8\x1b[8;9;10t\x1b[5W\x1b[g\u{9b}?1049l\x1bHl\x1bcm";

fn fresh_continuation() -> &'static Vec<String> {
    static FRESH: std::sync::OnceLock<Vec<String>> = std::sync::OnceLock::new();
    FRESH.get_or_init(|| {
        let mut p = Parser::new();
        CONTINUATION.chars().map(|ch| format!("{:?}", p.feed(ch))).collect()
    })
}

fn terminal_debug(vt: &Vt) -> String {
    let d = format!("{:?}", vt);
    match d.find(", terminal: ") {
        Some(i) => d[i..].to_string(),
        None => d,
    }
}

impl Sys {
    fn judge(&self, inert: &str, rebuild: &dyn Fn() -> Vt, out: &mut Out, with_continuation: bool) {
        out.count("inert_evaluations");
        let mut s = rebuild();
        let _ = s.feed_str(""); // flush change flags and pending trim
        let pre_full = obs_full(&s);
        let pre_dump = s.dump();
        let pre_term = terminal_debug(&s);
        let changed = s.feed_str(inert).lines;
        if !changed.is_empty() {
            out.violate("C20", "changed-lines-reported", format!("{} reported changed lines {:?}", esc(inert), changed));
            return;
        }
        let post_full = obs_full(&s);
        if post_full != pre_full {
            out.violate(
                "C20",
                "screen-or-cursor-changed",
                format!("{}: {:?} cursor {:?} -> {:?} cursor {:?}", esc(inert), pre_full.rows, pre_full.cursor, post_full.rows, post_full.cursor),
            );
            return;
        }
        let post_dump = s.dump();
        if post_dump != pre_dump {
            out.violate("C20", "mode-changed", format!("{}: dump {} -> {}", esc(inert), esc(&pre_dump), esc(&post_dump)));
            return;
        }
        // consumed completely: a following character is handled as from ground
        let _ = s.feed_str("Z");
        let mut r = rebuild();
        let _ = r.feed_str("");
        let _ = r.feed_str("Z");
        if obs(&s) != obs(&r) {
            out.violate("C20", "not-consumed", format!("{} then Z: {:?} vs Z alone: {:?}", esc(inert), obs(&s).rows, obs(&r).rows));
            return;
        }
        // ... and so is everything else that follows: 7- and 8-bit forms of every sequence kind
        // (cut before the final RIS of the continuation, which would hide what came before)
        let cont = if with_continuation { &CONTINUATION[..CONTINUATION.len() - 3] } else { "" };
        let ca = s.feed_str(cont).lines;
        let cb = r.feed_str(cont).lines;
        if with_continuation && ca != cb {
            out.violate(
                "C20",
                "later-changes-reported-differently",
                format!("{} then the continuation: changed lines {:?}, the continuation alone: {:?}", esc(inert), ca, cb),
            );
            return;
        }
        if with_continuation && (obs(&s) != obs(&r) || s.dump() != r.dump()) {
            out.violate(
                "C20",
                "later-input-understood-differently",
                format!("{} then the continuation: {:?} / {} vs the continuation alone: {:?} / {}", esc(inert), obs(&s).rows, esc(&s.dump()), obs(&r).rows, esc(&r.dump())),
            );
            return;
        }
        // hidden state: identical internal terminal state => nothing to probe;
        // otherwise decide observationally with the whole battery
        let mut s2 = rebuild();
        let _ = s2.feed_str("");
        let _ = s2.feed_str(inert);
        if terminal_debug(&s2) != pre_term {
            out.count("battery_fallbacks");
            let size = s2.size();
            for p in battery(size.0, size.1) {
                let mut a = rebuild();
                let _ = a.feed_str("");
                let _ = a.feed_str(inert);
                let _ = a.feed_str(&p);
                let mut b = rebuild();
                let _ = b.feed_str("");
                let _ = b.feed_str(&p);
                if obs(&a) != obs(&b) {
                    out.violate("C20", "hidden-state-changed", format!("{} then probe {} differs from probe alone", esc(inert), esc(&p)));
                    return;
                }
            }
        }
    }
}

impl System for Sys {
    type St = Vt;
    fn init(&self, cfg: &Cfg) -> Vt {
        cfg.build()
    }
    fn step(&self, _cfg: &Cfg, vt: &mut Vt, op: &Op, out: Option<&mut Out>) {
        let _ = apply(vt, op);
        if let Some(out) = out {
            out.obs_hash = Some(crate::obs::hash_obs(&obs(vt)));
        }
    }
    fn key(&self, vt: &Vt) -> u128 {
        fingerprint(vt)
    }
    fn on_state(&self, _cfg: &Cfg, h: &[&Op], _vt: &mut Vt, rebuild: &dyn Fn() -> Vt, out: &mut Out) {
        out.count("seed_states");
        // the long continuation from the seeds of depth <= 1 (quick) / every seed (thorough):
        // what an inert input does to later input does not depend on what is on the screen
        let with_cont = self.cont_everywhere || h.len() <= 1;
        for i in &self.inert {
            let before = out.violations.len();
            self.judge(i, rebuild, out, with_cont);
            if out.violations.len() > before {
                return;
            }
        }
    }
}

fn alpha(cfg: &Cfg) -> Vec<Op> {
    a_all(cfg, &[(2, 2), (3, 2)], false)
}

macro_rules! parts {
    ($tier:expr, $sys:expr) => {{
        let tier: Tier = $tier;
        Part {
            name: "seeds-x-inert-inputs",
            sys: $sys,
            cfgs: match tier {
                Tier::Quick => cfgs(&[(3, 2)], &[None]),
                Tier::Thorough => cfgs(&[(3, 2), (2, 2)], &[None, Some(0)]),
            },
            alphabet: &alpha,
            depth: tier.pick(2, 3),
            seconds: tier.pick(40.0, 3000.0),
            validated: true,
            nontrivial: Some("inert_evaluations"),
        }
    }};
}

fn make(tier: Tier) -> Sys {
    Sys {
        inert: inert_inputs(tier.pick(1, 2)),
        cont_everywhere: tier == Tier::Thorough,
    }
}

/// Parser-level sweep with longer payloads (the header part of a DCS and the
/// state changes inside strings need several payload characters to show).
fn deep_parser_sweep(ctx: &Ctx, rep: &mut Report) {
    use rayon::prelude::*;
    let all = inert_strings_only(4);
    let bad: Vec<(String, String)> = all
        .par_iter()
        .filter_map(|s| parser_inert(s).err().map(|e| (s.clone(), e)))
        .collect();
    rep.evaluations += all.len() as u64;
    rep.traces_validated += all.len() as u64;
    rep.parts.push(json!({"part":"parser-deep-payloads","inputs":all.len(),"max_payload_len":4,"violating":bad.len()}));
    println!("part parser-deep-payloads: {} control strings, {} violating", all.len(), bad.len());
    for (i, e) in bad.iter().take(3) {
        emit_violation(ctx, rep, "C20", json!({"part":"parser","input":esc(i),"input_raw":i,"oracle":"parser-inert","observed":e}));
    }
    if bad.len() > 3 {
        rep.violations += bad.len() as u64 - 3;
    }
}

/// Shapes and counts beyond the three parameter shapes of the main list:
/// (a) sequences that no implemented function can match because a parameter byte or a
/// private marker comes AFTER an intermediate or after the parameters - every final byte;
/// (b) every parameter count 0..=70 in CSI (unimplemented final) and DCS headers, with
/// empty, one-digit and five-digit values; every intermediate count 1..=8;
/// (c) every payload length 0..=`maxlen` for each string kind and terminator.
fn shape_inputs(maxlen: usize) -> (Vec<String>, Vec<String>) {
    let mut all: Vec<String> = vec![];
    let mut sub: Vec<String> = vec![]; // the part that is also run through a terminal
    // (a)
    let pbytes = ['0', '7', ';', ':', '<', '?'];
    for intro in ["\x1b[", "\u{9b}"] {
        for pre in ["", "1", "1;2", "?", "?6"] {
            for inter in 0x20u8..=0x2f {
                for fin in 0x40u8..=0x7e {
                    for &p1 in &pbytes {
                        let s = format!("{}{}{}{}{}", intro, pre, inter as char, p1, fin as char);
                        if matches!(inter as char, '!' | ' ' | '$') {
                            sub.push(s.clone());
                        }
                        all.push(s);
                        for &p2 in &pbytes {
                            all.push(format!("{}{}{}{}{}{}", intro, pre, inter as char, p1, p2, fin as char));
                        }
                    }
                }
            }
        }
        // private marker after the parameters
        for marker in ['<', '=', '>', '?'] {
            for fin in 0x40u8..=0x7e {
                for tail in ["", "2", ";", " "] {
                    let s = format!("{}1{}{}{}", intro, marker, tail, fin as char);
                    sub.push(s.clone());
                    all.push(s);
                    all.push(format!("{}1;2{}{}{}", intro, marker, tail, fin as char));
                }
            }
        }
    }
    // (b)
    for n in 0..=70usize {
        for val in ["", "1", "12345"] {
            let params = vec![val; n].join(";");
            for (intro, tail) in [("\x1b[", " q"), ("\u{9b}", "$y"), ("\x1b[?", "y"), ("\x1bP", "q#1~\x1b\\"), ("\u{90}", "$qm\u{9c}"), ("\x1bP?", "p\x1b\\")] {
                let s = format!("{}{}{}", intro, params, tail);
                sub.push(s.clone());
                all.push(s);
            }
        }
    }
    for n in 1..=8usize {
        for ic in [' ', '#', '/'] {
            let inters: String = std::iter::repeat(ic).take(n).collect();
            for s in [format!("\x1b[1{}q", inters), format!("\x1b{}q", inters), format!("\x1bP1{}q\u{9c}", inters)] {
                if n > 1 || ic != '#' {
                    sub.push(s.clone());
                    all.push(s);
                }
            }
        }
    }
    // (c)
    for len in 0..=maxlen {
        for (intro, osc) in [("\x1b]", true), ("\u{9d}", true), ("\x1bP", false), ("\x1bX", false), ("\x1b^", false), ("\u{9f}", false)] {
            let payload: String = (0..len).map(|i| if i % 7 == 6 { ';' } else { 'a' }).collect();
            let terms: &[&str] = if osc { &["\x07", "\x1b\\"] } else { &["\x1b\\", "\u{9c}"] };
            for t in terms {
                let s = format!("{}{}{}", intro, payload, t);
                if len <= 40 || len % 64 <= 1 || len % 100 <= 1 || len + 1 >= maxlen {
                    sub.push(s.clone());
                }
                all.push(s);
            }
        }
    }
    (all, sub)
}

fn shape_sweep(ctx: &Ctx, rep: &mut Report, sys: &Sys) {
    use rayon::prelude::*;
    let maxlen = ctx.tier.pick(4200usize, 9000usize);
    let (all, sub) = shape_inputs(maxlen);
    let bad: Vec<(String, String)> = all
        .par_iter()
        .filter_map(|s| parser_inert(s).err().map(|e| (s.clone(), e)))
        .collect();
    for (i, e) in bad.iter().take(3) {
        emit_violation(ctx, rep, "C20", json!({"part":"parser","input":esc(i),"input_raw":i,"oracle":"parser-inert","observed":e}));
    }
    if bad.len() > 3 {
        rep.violations += bad.len() as u64 - 3;
    }
    // the terminal-level oracle on two seed states that have every mode, the margins,
    // the pen, the charsets, the saved cursor and a tab stop away from their defaults
    let seeds = ["", "\x1b[2;3r\x1b[?6h\x1b[4h\x1b[?7l\x1b[1;31m\x1b(0ab\x1b[2;4H\x1bH\x1b7\x1b[?25l\x1b[?1h\x1b[2;2H"];
    let tbad: Vec<(usize, String, String)> = sub
        .par_iter()
        .filter_map(|s| {
            for (si, seed) in seeds.iter().enumerate() {
                let rebuild = || {
                    let mut vt = build_vt(6, 4, None);
                    let _ = vt.feed_str(seed);
                    vt
                };
                let mut out = Out::default();
                match crate::engine::guarded(|| sys.judge(s, &rebuild, &mut out, true)) {
                    Ok(()) => {
                        if let Some(v) = out.violations.first() {
                            return Some((si, s.clone(), format!("{}: {}", v.oracle, v.detail)));
                        }
                    }
                    Err(p) => return Some((si, s.clone(), format!("panic: {}", p))),
                }
            }
            None
        })
        .collect();
    for (si, i, e) in tbad.iter().take(3) {
        emit_violation(ctx, rep, "C20", json!({"part":"shapes-and-counts","seed":esc(seeds[*si]),"seed_raw":seeds[*si],"input":esc(i),"input_raw":i,"oracle":"inert-on-terminal","observed":e}));
    }
    if tbad.len() > 3 {
        rep.violations += tbad.len() as u64 - 3;
    }
    let n = all.len() as u64 + 2 * sub.len() as u64;
    rep.evaluations += n;
    rep.transitions += n;
    rep.distinct_nontrivial += sub.len() as u64;
    rep.extra.insert("shape_traces".into(), json!(n));
    rep.parts.push(json!({"part":"shapes-and-counts","parser_level_inputs":all.len(),"terminal_level_inputs":sub.len(),"terminal_seeds":2,"max_payload_len":maxlen,
        "max_param_count":70,"violating":bad.len() + tbad.len()}));
    println!("part shapes-and-counts: {} inputs through the parser, {} through 2 terminal states, {} violating", all.len(), sub.len(), bad.len() + tbad.len());
}

fn c20_scalars(tier: Tier) -> Vec<char> {
    (0xa0u32..=0x10FFFF)
        .filter(|&c| tier == Tier::Thorough || c < 0x3000 || (0xFE00..=0xFFFF).contains(&c) || (0x1F000..=0x1FAFF).contains(&c) || c % 251 == 0)
        .filter_map(char::from_u32)
        .collect()
}

/// Every scalar >= U+00A0 (a) where a CSI / ESC sequence expects its FINAL byte - no such
/// character is an implemented final, whatever its low byte - with and without parameters,
/// private markers and intermediates, through the bare parser with the continuation; and
/// (b) inside the payload of every string kind when the string is CONTINUED BY A SECOND,
/// LONG call (whatever a call does to find the end of an open string quickly, the payload
/// character is payload): no changed line, identical screen, cursor and dump.
fn scalars_in_sequences(ctx: &Ctx, rep: &mut Report) {
    use rayon::prelude::*;
    let scalars = c20_scalars(ctx.tier);
    let heads = ["\x1b[", "\x1b[2", "\x1b[?25", "\x1b[4", "\x1b[1;2", "\u{9b}5", "\x1b[!", "\x1b[1 ", "\x1b#", "\x1b$", "\x1b"];
    let bad_final: Vec<(char, String)> = scalars
        .par_iter()
        .filter_map(|&ch| {
            for h in heads {
                // after ESC alone a printable >= U+00A0 is an (unimplemented) final as well
                let s = format!("{}{}", h, ch);
                if let Err(e) = parser_inert(&s) {
                    return Some((ch, format!("{}: {}", esc(&s), e)));
                }
            }
            None
        })
        .collect();
    // (b)
    let kinds: [(&str, &str); 6] = [
        ("\x1b]0;", "\x07"),
        ("\x1b]8;;", "\x1b\\"),
        ("\u{9d}2;", "\u{9c}"),
        ("\x1bP1$q", "\x1b\\"),
        ("\x1b_G", "\u{9c}"),
        ("\x1bX", "\x1b\\"),
    ];
    let bad_cont: Vec<(char, String)> = scalars
        .par_iter()
        .filter_map(|&ch| {
            let r = crate::engine::guarded(|| {
                for (open, close) in kinds {
                    for first in ["", "title "] {
                        let mut vt = build_vt(12, 3, None);
                        let _ = vt.feed_str("ab\r\ncd");
                        let _ = vt.feed_str("");
                        let before = (obs_full(&vt), vt.dump());
                        let c1 = vt.feed_str(&format!("{}{}", open, first)).lines;
                        let rest = format!("of a window, a long one {} and then some more of it{}", ch, close);
                        let c2 = vt.feed_str(&rest).lines;
                        if !c1.is_empty() || !c2.is_empty() {
                            return Some(format!("{}{} | {}: changed lines reported {:?} {:?}", esc(open), first, esc(&rest), c1, c2));
                        }
                        let after = (obs_full(&vt), vt.dump());
                        if after != before {
                            return Some(format!("{}{} | {}: screen {:?} cursor {:?} -> {:?} cursor {:?}", esc(open), first, esc(&rest), before.0.rows, before.0.cursor, after.0.rows, after.0.cursor));
                        }
                    }
                }
                None
            });
            match r {
                Ok(None) => None,
                Ok(Some(d)) => Some((ch, d)),
                Err(p) => Some((ch, format!("panic: {}", p))),
            }
        })
        .collect();
    let n = scalars.len() as u64;
    rep.evaluations += n * (heads.len() as u64 + 12);
    rep.traces_validated += n * (heads.len() as u64 + 12);
    rep.parts.push(json!({"part":"every-scalar-as-final-and-in-continued-strings","scalars":n,"all_scalars":ctx.tier == Tier::Thorough,"sequence_heads":heads.len(),"string_kinds":kinds.len(),
        "violating_as_final":bad_final.len(),"violating_in_continued_string":bad_cont.len()}));
    println!("part every-scalar-as-final-and-in-continued-strings: {} scalars x {} sequence heads + {} string kinds x 2 cuts, {} + {} violating", n, heads.len(), kinds.len(), bad_final.len(), bad_cont.len());
    for (ch, e) in bad_final.iter().take(2) {
        emit_violation(ctx, rep, "C20", json!({"part":"every-scalar-as-final-and-in-continued-strings","scalar":*ch as u32,"oracle":"parser-inert","observed":e}));
    }
    for (ch, e) in bad_cont.iter().take(2) {
        emit_violation(ctx, rep, "C20", json!({"part":"every-scalar-as-final-and-in-continued-strings","scalar":*ch as u32,"oracle":"screen-or-cursor-changed","observed":e}));
    }
    let extra = bad_final.len().saturating_sub(2) + bad_cont.len().saturating_sub(2);
    rep.violations += extra as u64;
}

/// Two halves make a whole: every ordered pair of known foreign sequences around each of a
/// few implemented commands that change what such a pair could save and restore (a mode,
/// the pen, the cursor, the margins, the screen). After `a, command, b` the terminal is
/// where `command` alone leaves it, and stays so through the continuation.
fn foreign_pairs(ctx: &Ctx, rep: &mut Report) {
    use rayon::prelude::*;
    let f = crate::alphabets::KNOWN_FOREIGN;
    let cmds = ["\x1b[?25l", "\x1b[?7l", "\x1b[?6h", "\x1b[?1h", "\x1b[1;31m", "\x1b[2;2H", "\x1b[2;3r", "\x1b[?1049h", "\x1b[4h", "x"];
    let pairs: Vec<(usize, usize)> = (0..f.len()).flat_map(|a| (0..f.len()).map(move |b| (a, b))).collect();
    let bad: Vec<String> = pairs
        .par_iter()
        .filter_map(|&(a, b)| {
            let r = crate::engine::guarded(|| {
                for cmd in cmds {
                    let mut vt = build_vt(6, 4, None);
                    let mut w = build_vt(6, 4, None);
                    let pre = "ab\r\ncd\x1b[1;44m";
                    let _ = vt.feed_str(pre);
                    let _ = w.feed_str(pre);
                    let _ = vt.feed_str(f[a]);
                    let _ = vt.feed_str(cmd);
                    let _ = w.feed_str(cmd);
                    let c = vt.feed_str(f[b]).lines;
                    if !c.is_empty() {
                        return Some(format!("{} , {} , {}: the last one reports changed lines {:?}", esc(f[a]), esc(cmd), esc(f[b]), c));
                    }
                    if obs_full(&vt) != obs_full(&w) || vt.dump() != w.dump() {
                        return Some(format!("{} , {} , {}: not where {} alone leaves the terminal (dump {} vs {})", esc(f[a]), esc(cmd), esc(f[b]), esc(cmd), esc(&vt.dump()), esc(&w.dump())));
                    }
                    let cont = &CONTINUATION[..CONTINUATION.len() - 3];
                    let la = vt.feed_str(cont).lines;
                    let lb = w.feed_str(cont).lines;
                    if la != lb {
                        return Some(format!("{} , {} , {}: the continuation reports changed lines {:?} instead of {:?}", esc(f[a]), esc(cmd), esc(f[b]), la, lb));
                    }
                    if obs_full(&vt) != obs_full(&w) || vt.dump() != w.dump() {
                        return Some(format!("{} , {} , {}: later input is understood differently", esc(f[a]), esc(cmd), esc(f[b])));
                    }
                }
                None
            });
            match r {
                Ok(x) => x,
                Err(p) => Some(format!("{} ... {}: panic: {}", esc(f[a]), esc(f[b]), p)),
            }
        })
        .collect();
    let n = pairs.len() as u64 * cmds.len() as u64;
    rep.evaluations += n;
    rep.traces_validated += n;
    rep.parts.push(json!({"part":"foreign-sequence-pairs","sequences":f.len(),"commands":cmds.len(),"triples":n,"violating":bad.len()}));
    println!("part foreign-sequence-pairs: {} sequences squared x {} commands, {} violating", f.len(), cmds.len(), bad.len());
    if let Some(d) = bad.first() {
        emit_violation(ctx, rep, "C20", json!({"part":"foreign-sequence-pairs","oracle":"hidden-state-changed","observed":d}));
        rep.violations += bad.len() as u64 - 1;
    }
}

/// Small parameter VALUES for every unimplemented shape: marker x intermediate x final with
/// each first parameter 0..=127 - through the bare parser with the continuation (a "select
/// level 61" that quietly changes how later input is read shows there).
fn small_parameters_every_shape(ctx: &Ctx, rep: &mut Report) {
    use rayon::prelude::*;
    let implemented_plain = "@ABCDEFGHIJKLMPSTWXZ`abdefghlmrstu";
    let mut shapes: Vec<(String, String, char)> = vec![];
    for marker in ["", "?", "<", "=", ">"] {
        let mut inters: Vec<String> = vec!["".into()];
        for i in 0x20u8..=0x2f {
            inters.push((i as char).to_string());
        }
        for it in inters {
            for fin in 0x40u8..=0x7e {
                let fch = fin as char;
                let implemented = (marker.is_empty() && it.is_empty() && implemented_plain.contains(fch)) || (marker == "?" && it.is_empty() && (fch == 'h' || fch == 'l')) || (it == "!" && fch == 'p');
                if !implemented {
                    shapes.push((marker.to_string(), it.clone(), fch));
                }
            }
        }
    }
    let top = ctx.tier.pick(127u32, 1100);
    let bad: Vec<String> = shapes
        .par_iter()
        .filter_map(|(m, it, fch)| {
            for v in 0..=top {
                for tail in ["", ";1"] {
                    let s = format!("\x1b[{}{}{}{}{}", m, v, tail, it, fch);
                    if let Err(e) = parser_inert(&s) {
                        return Some(format!("{}: {}", esc(&s), e));
                    }
                }
            }
            None
        })
        .collect();
    let n = shapes.len() as u64 * (top as u64 + 1) * 2;
    rep.evaluations += n;
    rep.traces_validated += n;
    rep.parts.push(json!({"part":"small-parameters-every-shape","shapes":shapes.len(),"values":top+1,"inputs":n,"violating":bad.len()}));
    println!("part small-parameters-every-shape: {} shapes x {} values x 2, {} violating", shapes.len(), top + 1, bad.len());
    if let Some(d) = bad.first() {
        emit_violation(ctx, rep, "C20", json!({"part":"small-parameters-every-shape","oracle":"parser-inert","observed":d}));
        rep.violations += bad.len() as u64 - 1;
    }
}

/// DCS headers, systematically: first parameter 0..=9 (and none), each intermediate, every
/// final byte, with payloads that look like data for a report or a setting (digits, `/`, `;`)
/// and each terminator - through the bare parser with the continuation, and the digits-only
/// ones through a terminal (tab stops, modes and the dump stay as they are).
fn dcs_headers(ctx: &Ctx, rep: &mut Report) {
    use rayon::prelude::*;
    let mut heads: Vec<String> = vec![];
    for p in ["", "0", "1", "2", "3", "4", "5", "6", "7", "8", "9", "1;2", "=1", "=2", "?1", ">1"] {
        let mut inters: Vec<String> = vec!["".into()];
        for i in 0x20u8..=0x2f {
            inters.push((i as char).to_string());
        }
        for it in inters {
            for fin in 0x40u8..=0x7e {
                heads.push(format!("{}{}{}", p, it, fin as char));
            }
        }
    }
    let payloads = ["", "3", "3/5", "9/17/25", "1;2", "m", "0m", "q#1"];
    let bad: Vec<String> = heads
        .par_iter()
        .filter_map(|h| {
            for pay in payloads {
                for (intro, term) in [("\x1bP", "\x1b\\"), ("\u{90}", "\u{9c}")] {
                    let s = format!("{}{}{}{}", intro, h, pay, term);
                    if let Err(e) = parser_inert(&s) {
                        return Some(format!("{}: {}", esc(&s), e));
                    }
                }
            }
            // through a terminal (one spelling, the data-like payloads)
            let r = crate::engine::guarded(|| {
                for pay in ["3", "3/5", "1;2"] {
                    let mut vt = build_vt(20, 3, None);
                    let _ = vt.feed_str("ab\x1b[2;3H");
                    let _ = vt.feed_str("");
                    let before = (obs_full(&vt), vt.dump(), vt.verif_state().tabs);
                    let s = format!("\u{90}{}{}\u{9c}", h, pay);
                    let c = vt.feed_str(&s).lines;
                    let after = (obs_full(&vt), vt.dump(), vt.verif_state().tabs);
                    if !c.is_empty() || after != before {
                        return Some(format!("{}: changed lines {:?}, dump {} -> {}, tab stops {:?} -> {:?}", esc(&s), c, esc(&before.1), esc(&after.1), before.2, after.2));
                    }
                    let la = vt.feed_str("\tx\r\ny").lines;
                    let mut w = build_vt(20, 3, None);
                    let _ = w.feed_str("ab\x1b[2;3H");
                    let _ = w.feed_str("");
                    let lb = w.feed_str("\tx\r\ny").lines;
                    if la != lb || obs_full(&vt) != obs_full(&w) {
                        return Some(format!("{}: what follows is handled differently (changed lines {:?} vs {:?})", esc(&s), la, lb));
                    }
                }
                None
            });
            match r {
                Ok(x) => x,
                Err(p) => Some(format!("DCS {}: panic: {}", h, p)),
            }
        })
        .collect();
    let n = heads.len() as u64 * (payloads.len() as u64 * 2 + 3);
    rep.evaluations += n;
    rep.traces_validated += n;
    rep.parts.push(json!({"part":"dcs-headers","headers":heads.len(),"payloads":payloads.len(),"inputs":n,"violating":bad.len()}));
    println!("part dcs-headers: {} headers x {} payloads x 2 spellings (+3 through a terminal), {} violating", heads.len(), payloads.len(), bad.len());
    if let Some(d) = bad.first() {
        emit_violation(ctx, rep, "C20", json!({"part":"dcs-headers","oracle":"parser-inert","observed":d}));
        rep.violations += bad.len() as u64 - 1;
    }
}

pub fn run(ctx: &Ctx) -> Report {
    let mut rep = Report::new();
    let sys = make(ctx.tier);
    deep_parser_sweep(ctx, &mut rep);
    shape_sweep(ctx, &mut rep, &sys);
    scalars_in_sequences(ctx, &mut rep);
    foreign_pairs(ctx, &mut rep);
    small_parameters_every_shape(ctx, &mut rep);
    dcs_headers(ctx, &mut rep);
    // parser-level oracle once per inert input (independent of the seed)
    let mut pbad = 0;
    for i in &sys.inert {
        if let Err(m) = parser_inert(i) {
            pbad += 1;
            if pbad <= 3 {
                emit_violation(ctx, &mut rep, "C20", json!({"part":"parser","input":esc(i),"input_raw":i,"oracle":"parser-inert","observed":m}));
            } else {
                rep.violations += 1;
            }
        }
    }
    rep.evaluations += sys.inert.len() as u64;
    rep.extra.insert("inert_inputs".into(), json!(sys.inert.len()));
    let p = parts!(ctx.tier, &sys);
    run_part(ctx, &mut rep, &p);
    let n = rep.counters.get("seeds-x-inert-inputs.inert_evaluations").copied().unwrap_or(0);
    rep.evaluations += n;
    rep.traces_validated = n + rep.extra.get("shape_traces").and_then(|v| v.as_u64()).unwrap_or(0);
    rep.samples.push(json!(esc(&sys.inert[sys.inert.len() / 3])));
    rep.samples.push(json!(esc(&sys.inert[sys.inert.len() / 2])));
    rep.rule = "seed states = every state reachable by the all-functions alphabet (no truncated sequences) up to the depth bound; inert inputs = 5 string kinds x 7/8-bit introducers x all payloads up to the length bound over 13-14 class representatives x every terminator, every CSI final x {no prefix, ? < = > ?$, each intermediate} x 3 parameter shapes outside the implemented table, every unimplemented ESC final with and without each intermediate, every unassigned C0/C1; every (seed, inert) pair: no changed line reported, lines()/cursor/dump() identical, a following char handled as from ground, hidden state identical (internal terminal state identical, else full probe battery); each inert input also through a bare Parser (nothing dispatched, ends in Ground); shapes-and-counts: every final byte after a parameter byte or private marker that follows an intermediate or the parameters, every parameter count 0..=70 in CSI and DCS headers, every intermediate count 1..=8, every payload length up to the bound for each string kind and terminator - through the bare Parser, and a subset through two terminal states (default; everything non-default)".into();
    rep.assumptions = vec![
        "seeds are in parser ground state; inert inputs that start with an introducer behave the same from any parser state (ESC/C1 are 'anywhere' transitions), which C03 checks".into(),
        "'CSI ... ! p' with any private marker is the DECSTR spelling and is excluded, as the statement allows".into(),
    ];
    rep
}

pub fn replay(ctx: &Ctx, v: &Value) -> bool {
    if v["part"] == "dcs-headers" {
        let mut rep = Report::new();
        dcs_headers(ctx, &mut rep);
        return rep.violations > 0;
    }
    if v["part"] == "foreign-sequence-pairs" || v["part"] == "small-parameters-every-shape" {
        let mut rep = Report::new();
        let c2 = Ctx { id: ctx.id.clone(), tier: Tier::Quick, seed: 0, start: ctx.start, known: ctx.known.clone(), replay_dir: ctx.replay_dir.clone() };
        foreign_pairs(&c2, &mut rep);
        small_parameters_every_shape(&c2, &mut rep);
        return rep.violations > 0;
    }
    if v["part"] == "every-scalar-as-final-and-in-continued-strings" {
        let mut rep = Report::new();
        let c2 = Ctx { id: ctx.id.clone(), tier: if v["tier"] == "thorough" { Tier::Thorough } else { Tier::Quick }, seed: 0, start: ctx.start, known: ctx.known.clone(), replay_dir: ctx.replay_dir.clone() };
        scalars_in_sequences(&c2, &mut rep);
        return rep.violations > 0;
    }
    if v["part"] == "parser" {
        let r = parser_inert(v["input_raw"].as_str().unwrap());
        println!("{:?}", r);
        return r.is_err();
    }
    let tier = if v["tier"] == "thorough" { Tier::Thorough } else { Tier::Quick };
    let sys = make(tier);
    if v["part"] == "shapes-and-counts" {
        let (seed, input) = (v["seed_raw"].as_str().unwrap_or("").to_string(), v["input_raw"].as_str().unwrap_or("").to_string());
        let rebuild = || {
            let mut vt = build_vt(6, 4, None);
            let _ = vt.feed_str(&seed);
            vt
        };
        let mut out = Out::default();
        let r = crate::engine::guarded(|| sys.judge(&input, &rebuild, &mut out, true));
        for v in &out.violations {
            println!("{}: {}", v.oracle, v.detail);
        }
        return r.is_err() || !out.violations.is_empty();
    }
    let p = parts!(tier, &sys);
    replay_part(ctx, &p, v)
}
