//! C16 — the alternate screen never disturbs the primary screen.

use super::common::geometry_broken;
use crate::alphabets::*;
use crate::engine::{Out, System};
use crate::lockstep::LockStep;
use crate::logical::*;
use crate::obs::{fingerprint, fp_combine, fp_str, obs, obs_full, Obs, PenObs};
use crate::ops::Cmd::*;
use crate::ops::*;
use crate::report::*;
use avt::Vt;
use serde_json::Value;

pub struct Sys;

#[derive(Clone)]
pub struct Entry {
    /// primary: all of lines(), cursor at entry
    pre: Obs,
    pre_text: Vec<String>,
    by_1049: bool,
    resized: bool,
}

pub struct St {
    vt: Vt,
    want: (usize, usize),
    entry: Option<Entry>,
}

/// the screen mode a sequence switches, when it names exactly one of 47/1047/1049
/// (other, also unimplemented, mode numbers in the same list do not matter)
fn mode_of(cmd: &Cmd) -> Option<(bool, u32)> {
    let pick = |v: &Vec<u32>| {
        let s: Vec<u32> = v.iter().copied().filter(|m| matches!(m, 47 | 1047 | 1049)).collect();
        if s.len() == 1 {
            Some(s[0])
        } else {
            None
        }
    };
    match cmd {
        DecSet(v) => pick(v).map(|m| (true, m)),
        DecRst(v) => pick(v).map(|m| (false, m)),
        _ => None,
    }
}

impl System for Sys {
    type St = St;
    fn init(&self, cfg: &Cfg) -> St {
        St {
            vt: cfg.build(),
            want: (cfg.cols, cfg.rows),
            entry: None,
        }
    }
    fn step(&self, cfg: &Cfg, st: &mut St, op: &Op, out: Option<&mut Out>) {
        let was_alt = st.vt.verif_state().alternate_active;
        let pre_primary = if !was_alt { Some((obs_full(&st.vt), st.vt.text(), st.vt.verif_state().pen)) } else { None };
        if let Resize(c, r) = op.cmd {
            st.want = (c, r);
        }
        let pre_size = st.vt.size();
        let _ = apply(&mut st.vt, op);
        let now_alt = st.vt.verif_state().alternate_active;
        // which screen SHOULD be showing follows from the commands alone (the alphabet has
        // no truncated sequences): a requested switch that does not happen, or a switch
        // nobody requested, breaks "every entry presents ..." / "nothing done while ..."
        let should_alt = super::common::ghost_alt(was_alt, &op.cmd);
        let mut dummy = Out::default();
        let judging = out.is_some();
        let out = match out {
            Some(o) => o,
            None => &mut dummy,
        };
        if judging {
            if let Some(why) = geometry_broken(&st.vt, st.want) {
                out.violate("C16", "geometry", why);
                return;
            }
            if should_alt != now_alt {
                out.violate(
                    "C16",
                    "screen-switch",
                    format!(
                        "after {:?} the {} screen is showing, the commands call for the {} screen",
                        op.cmd,
                        if now_alt { "alternate" } else { "primary" },
                        if should_alt { "alternate" } else { "primary" }
                    ),
                );
                return;
            }
        }
        match (was_alt, now_alt) {
            (false, true) => {
                // entry
                let (pre, pre_text, pen) = pre_primary.unwrap();
                if judging {
                    out.count("entries");
                    let o = obs(&st.vt);
                    let want_pen = PenObs::of(&pen);
                    for (i, r) in o.rows.iter().enumerate() {
                        // blank means blank: no character, the current pen, and no soft-wrap mark
                        // left over from an earlier visit
                        if r.cells.iter().any(|c| *c != (' ', want_pen)) || r.wrapped {
                            out.violate(
                                "C16",
                                "blank-alternate-screen-on-entry",
                                format!("row {} of the alternate screen on entry is {:?}, expected blanks in pen {:?}", i, r, want_pen),
                            );
                            return;
                        }
                    }
                    if st.vt.text() != pre_text {
                        out.violate("C16", "text-unchanged-on-entry", format!("text() {:?} -> {:?}", pre_text, st.vt.text()));
                        return;
                    }
                }
                st.entry = Some(Entry {
                    pre,
                    pre_text,
                    by_1049: mode_of(&op.cmd) == Some((true, 1049)),
                    resized: false,
                });
            }
            (true, true) => {
                if let Some(e) = st.entry.as_mut() {
                    if st.vt.size() != pre_size {
                        e.resized = true;
                    }
                    if judging {
                        out.count("calls_on_alternate_screen");
                        if !e.resized && st.vt.text() != e.pre_text {
                            out.violate(
                                "C16",
                                "text-unchanged-during-excursion",
                                format!("text() was {:?} at entry, now {:?}", e.pre_text, st.vt.text()),
                            );
                        }
                    }
                }
            }
            (true, false) => {
                let e = st.entry.take();
                if matches!(op.cmd, Ris) {
                    return;
                }
                if let (Some(e), true) = (e, judging) {
                    out.count("exits");
                    let post = obs_full(&st.vt);
                    let both_1049 = e.by_1049 && mode_of(&op.cmd) == Some((false, 1049));
                    if !e.resized {
                        // (with a scrollback limit, rows that were waiting to be trimmed when the
                        // screen was left - input that came through feed(), which never trims - go
                        // when it is shown again: the top of lines() may have been cut, no more)
                        // (only a feed_str call can trim: feed() hands nothing out, so nothing may go)
                        let cut = !matches!(op.kind, Kind::FeedChars) && cfg.limit.is_some() && post.rows.len() < e.pre.rows.len() && post.rows.len() >= post.size.1 && e.pre.rows.ends_with(&post.rows);
                        if cut {
                            out.count("exits_with_delayed_trim");
                        } else if post.rows != e.pre.rows {
                            out.violate(
                                "C16",
                                "primary-unchanged-after-excursion",
                                format!("primary lines() at entry {:?}, after leaving {:?}", e.pre.rows, post.rows),
                            );
                            return;
                        }
                        if !cut && st.vt.text() != e.pre_text {
                            out.violate("C16", "text-unchanged-after-excursion", format!("{:?} -> {:?}", e.pre_text, st.vt.text()));
                            return;
                        }
                        if both_1049 {
                            let cols = post.size.0;
                            let want = (e.pre.cursor.0.min(cols - 1), e.pre.cursor.1);
                            if (post.cursor.0, post.cursor.1) != want {
                                out.violate(
                                    "C16",
                                    "1049-restores-cursor",
                                    format!("cursor at entry {:?}, after ?1049l {:?}", e.pre.cursor, post.cursor),
                                );
                            }
                        }
                    } else if cfg.limit.is_none() {
                        // (with a scrollback limit re-wrapped rows may be trimmed away,
                        // so the relation is only required for unlimited scrollback)
                        out.count("exits_after_resize");
                        // judged relationally: re-wrapped but never altered
                        let mut pre = e.pre.clone();
                        // the saved position is clamped to the last real column (C17)
                        pre.cursor.0 = pre.cursor.0.min(pre.size.0 - 1);
                        let mut a = logical(&pre);
                        let b = logical(&post);
                        if !both_1049 {
                            // the live cursor (moved on the alternate screen) decides what may be
                            // cut: only require that the content is a truncation of what it was
                            a.cur_line = 0;
                            a.cur_off = 0;
                        }
                        if let Err(why) = resize_relation(&a, &b, both_1049) {
                            out.violate(
                                "C16",
                                "primary-rewrapped-not-altered",
                                format!("{} (entry {:?} cursor {:?}; after {:?} cursor {:?})", why, e.pre.rows, e.pre.cursor, post.rows, post.cursor),
                            );
                        }
                    }
                }
            }
            (false, false) => {}
        }
        if judging {
            out.obs_hash = Some(crate::obs::hash_obs(&obs(&st.vt)));
        }
    }
    fn key(&self, st: &St) -> u128 {
        let e = match &st.entry {
            None => "none".to_string(),
            Some(e) => format!("{:?}{}{}{}", e.pre.cursor, e.by_1049, e.resized, crate::obs::hash_obs(&e.pre)),
        };
        fp_combine(fingerprint(&st.vt), fp_str(&e))
    }
}

fn alpha(cfg: &Cfg) -> Vec<Op> {
    let mut v = vec![
        t("a"),
        t("bcd"),
        c(crlf()),
        c(lfs(3)),
        c(Cup(None, None)),
        c(Cup(Some(99), Some(99))),
        c(Decsc),
        c(Decrc),
        c(sgr1(41)),
        c(sgr1(1)),
        c(DecSet(vec![47])),
        c(DecSet(vec![1047])),
        c(DecSet(vec![1049])),
        c(DecRst(vec![47])),
        c(DecRst(vec![1047])),
        c(DecRst(vec![1049])),
        c(Su(None)),
        c(Sd(None)),
        c(Il(None)),
        c(Dl(None)),
        c(Ed(None)),
        c(Ed(Some(1))),
        c(Ed(Some(2))),
        c(El(None)),
        c(Decaln),
        c(Ich(None)),
        c(Dch(None)),
        c(Decstbm(Some(1), Some(2))),
        c(Decstr),
        c(Ri),
        c(lfs(12)),
        // "anything" includes sequences that mean nothing: they must not reach the primary either
        Op::new(Inert("\x1b]0;t\x07".into())),
        Op::new(Inert("\x1b c".into())),
        Op::new(Inert("\x1b#c".into())),
        Op::new(Inert("\x1b 8".into())),
        // near misses of the switching sequences: malformed or not private, they switch nothing
        Op::new(Inert("\x1b[?1049?l".into())),
        Op::new(Inert("\x1b[?10?49l".into())),
        Op::new(Inert("\x1b[1049l".into())),
        Op::new(Inert("\x1b[?1049$l".into())),
        Op::new(Inert("\x1b[>47l".into())),
        Op::new(Inert("\x1b[?47?h".into())),
        Op::new(Inert("\x1b[1049h".into())),
        // ... nor do numbers that only LOOK like the switching modes once the parser has run out
        // of room: a 7th sub-parameter, a 33rd parameter (10::::::49 is 10, not 1049; the 32nd
        // parameter of 34 is 1049 followed by more digits)
        Op::new(Inert("\x1b[?10::::::49l".into())),
        Op::new(Inert("\x1b[?10::::::47l".into())),
        Op::new(Inert("\x1b[?4::::::7l".into())),
        Op::new(Inert(format!("\x1b[?{}1049;5l", "0;".repeat(31)))),
        Op::new(Inert(format!("\x1b[?{}47;0;0l", "2;".repeat(31)))),
        // the switching mode first, another implemented mode behind it: done in the order written
        c(DecSet(vec![1049, 6])),
        c(DecSet(vec![1049, 7])),
        // mode lists in which an unimplemented number comes first
        c(DecSet(vec![2004, 1049])),
        c(DecRst(vec![12, 1049])),
        c(DecSet(vec![1004, 47])),
        c(DecRst(vec![2004, 1047])),
    ];
    for (cc, r) in [(cfg.cols + 1, cfg.rows), (cfg.cols.max(2) - 1, cfg.rows), (cfg.cols, cfg.rows + 1), (cfg.cols, cfg.rows.max(2) - 1)] {
        v.push(Op::resize(cc, r));
    }
    v
}

fn alpha_ls(cfg: &Cfg) -> Vec<Op> {
    let mut v = vec![
        t("a"),
        t("bcd"),
        c(crlf()),
        c(Cup(Some(99), Some(99))),
        c(Decsc),
        c(Decrc),
        c(sgr1(41)),
        c(sgr1(1)),
        c(DecSet(vec![47])),
        c(DecSet(vec![1047])),
        c(DecSet(vec![1049])),
        c(DecRst(vec![47])),
        c(DecRst(vec![1047])),
        c(DecRst(vec![1049])),
        c(DecSet(vec![1049, 6])),
        c(lfs(3)),
        c(Ed(Some(2))),
        c(Decaln),
        c(Decstr),
    ];
    v.push(Op::resize(cfg.cols + 1, cfg.rows));
    v.push(Op::resize(cfg.cols, cfg.rows.max(2) - 1));
    v
}

static LS: LockStep = LockStep { property: "C16", probes: true, seed: None, via_feed: false, merged: false };
/// the core of the excursions over a small alphabet, much deeper: what one visit leaves
/// behind on the alternate screen (wrap marks, wiped rows, regions, pens) must not be there
/// on the next one, and nothing of it on the primary
fn alpha_core(cfg: &Cfg) -> Vec<Op> {
    let cols = cfg.cols as u32;
    let over: String = "abcdefghij".chars().take(cfg.cols + 1).collect();
    vec![
        c(DecSet(vec![1049])),
        c(DecRst(vec![1049])),
        Op::text(&over),
        c(El(Some(1))),
        c(El(Some(2))),
        c(Ed(Some(1))),
        c(Cup(Some(1), Some(cols))),
        c(Cup(Some(2), Some(1))),
        c(sgr1(41)),
        c(sgr1(1)),
        // input that arrives through feed() (which reports nothing and never trims the primary)
        c(lfs(4)).kind(Kind::FeedChars),
        c(DecSet(vec![1049])).kind(Kind::FeedChars),
        c(DecRst(vec![1049])).kind(Kind::FeedChars),
    ]
}

fn core_part(tier: Tier) -> Part<'static, Sys> {
    Part {
        name: "excursions-core-deep",
        sys: &Sys,
        cfgs: match tier {
            Tier::Quick => cfgs(&[(3, 2)], &[None, Some(1)]),
            Tier::Thorough => cfgs(&[(3, 2), (4, 3), (2, 2)], &[None, Some(0), Some(1), Some(2)]),
        },
        alphabet: &alpha_core,
        depth: tier.pick(7, 9),
        seconds: tier.pick(20.0, 1800.0),
        validated: true,
        nontrivial: Some("calls_on_alternate_screen"),
    }
}

static LS_REGIONS: LockStep = LockStep { property: "C16", probes: false, seed: None, via_feed: false, merged: true };

/// excursions from and into screens with scroll regions and origin mode: what the program
/// on the alternate screen does to the margins must not bend the cursor that 1049 restores
fn alpha_regions(cfg: &Cfg) -> Vec<Op> {
    let rows = cfg.rows as u32;
    let mut v = vec![
        c(Decstbm(Some(rows - 1), Some(rows))),
        c(Decstbm(Some(1), Some(2))),
        c(Decstbm(Some(2), Some(rows - 1))),
        c(Decstbm(None, None)),
        c(DecSet(vec![6])),
        c(DecRst(vec![6])),
        c(DecSet(vec![1049])),
        c(DecRst(vec![1049])),
        c(DecSet(vec![1047])),
        c(DecRst(vec![1047])),
        c(Cup(None, None)),
        c(Cup(Some(99), Some(99))),
        c(Cud(None)),
        t("a"),
        c(Decsc),
        c(Decrc),
    ];
    v.push(Op::resize(cfg.cols + 1, cfg.rows));
    v
}

fn regions_part(tier: Tier) -> Part<'static, LockStep> {
    Part {
        name: "excursions-with-regions-lockstep",
        sys: &LS_REGIONS,
        cfgs: match tier {
            Tier::Quick => cfgs(&[(2, 4)], &[None]),
            Tier::Thorough => cfgs(&[(2, 4), (2, 5), (3, 6)], &[None]),
        },
        alphabet: &alpha_regions,
        depth: tier.pick(5, 7),
        seconds: tier.pick(20.0, 1800.0),
        validated: true,
        nontrivial: Some("lockstep_transitions"),
    }
}

macro_rules! parts {
    ($tier:expr) => {{
        let tier: Tier = $tier;
        let frame = Part {
            name: "excursions-frame-oracle",
            sys: &Sys,
            cfgs: match tier {
                Tier::Quick => cfgs(&[(3, 2), (2, 2)], &[None, Some(0), Some(10)]),
                Tier::Thorough => cfgs(&[(3, 2), (2, 2), (2, 3), (4, 3)], &[None, Some(0), Some(2), Some(10)]),
            },
            alphabet: &alpha,
            depth: tier.pick(4, 6),
            seconds: tier.pick(30.0, 2400.0),
            validated: true,
            nontrivial: Some("calls_on_alternate_screen"),
        };
        let ls = Part {
            name: "excursions-lockstep",
            sys: &LS,
            cfgs: match tier {
                Tier::Quick => cfgs(&[(3, 2), (2, 2)], &[None]),
                Tier::Thorough => cfgs(&[(3, 2), (2, 2), (2, 3)], &[None]),
            },
            alphabet: &alpha_ls,
            depth: tier.pick(5, 6),
            seconds: tier.pick(20.0, 1800.0),
            validated: true,
            nontrivial: Some("lockstep_transitions"),
        };
        (frame, ls)
    }};
}

static SYS_MODES: LockStep = LockStep { property: "C16", probes: false, seed: None, via_feed: false, merged: false };

pub fn run(ctx: &Ctx) -> Report {
    let mut rep = Report::new();
    let (frame, ls) = parts!(ctx.tier);
    run_part(ctx, &mut rep, &frame);
    run_part(ctx, &mut rep, &ls);
    run_part(ctx, &mut rep, &regions_part(ctx.tier));
    run_part(ctx, &mut rep, &core_part(ctx.tier));
    run_part(ctx, &mut rep, &super::sweep::mode_part(&SYS_MODES, ctx.tier));
    super::sweep::mode_number_sweep(ctx, &mut rep, &SYS_MODES);
    rep.rule = "BFS over histories mixing primary-screen edits, entry by 47/1047/1049, everything executable on the alternate screen (prints, scrolls, IL/DL, ED/EL, DECALN, ICH/DCH, margins, save/restore, DECSTR, RI), exit by 47/1047/1049 and four resizes; frame oracle: blank alternate screen in the current pen on entry, text() constant throughout, primary lines() identical after leaving (size unchanged) or re-wrapped-not-altered by the C10 relation (size changed), 1049 pair restores the cursor; plus a lock-step run of the buffer switches against the reference terminal; non-trivial = calls executed while the alternate screen is showing".into();
    rep.assumptions = vec![
        "which screen is showing is read through the verif hook".into(),
        "after a resize during the excursion the cursor clause is judged from the saved position clamped to the last real column".into(),
    ];
    rep
}

pub fn replay(ctx: &Ctx, v: &Value) -> bool {
    let tier = if v["tier"] == "thorough" { Tier::Thorough } else { Tier::Quick };
    let (frame, ls) = parts!(tier);
    match v["part"].as_str().unwrap_or("") {
        "excursions-frame-oracle" => replay_part(ctx, &frame, v),
        "excursions-with-regions-lockstep" => replay_part(ctx, &regions_part(tier), v),
        "excursions-core-deep" => replay_part(ctx, &core_part(tier), v),
        "every-mode-number" => super::sweep::mode_number_replay(ctx, &SYS_MODES),
        "mode-list-shapes" => replay_part(ctx, &super::sweep::mode_part(&SYS_MODES, tier), v),
        _ => replay_part(ctx, &ls, v),
    }
}
