//! Helpers shared by several checks.

use crate::ops::Cmd;
use avt::Vt;

/// Syntactic tracking of "is the alternate screen showing" from the abstract
/// commands of a history. Only sound for alphabets without truncated
/// sequences (every command is then executed as written).
pub fn ghost_alt(mut alt: bool, cmd: &Cmd) -> bool {
    match cmd {
        Cmd::DecSet(v) => {
            for m in v {
                if matches!(m, 47 | 1047 | 1049) {
                    alt = true;
                }
            }
            alt
        }
        Cmd::DecRst(v) => {
            for m in v {
                if matches!(m, 47 | 1047 | 1049) {
                    alt = false;
                }
            }
            alt
        }
        Cmd::Ris => false,
        Cmd::Seq(v) => {
            for c in v {
                alt = ghost_alt(alt, c);
            }
            alt
        }
        _ => alt,
    }
}

pub fn may_print(cmd: &Cmd) -> bool {
    match cmd {
        Cmd::Text(_) | Cmd::Rep(_) => true,
        Cmd::Raw(s) | Cmd::Inert(s) => s.chars().any(|c| (c as u32) >= 0x20),
        Cmd::Seq(v) => v.iter().any(may_print),
        _ => false,
    }
}

/// The C02 geometry invariants on one state. Returns a description of the
/// first broken one.
pub fn geometry_broken(vt: &Vt, want: (usize, usize)) -> Option<String> {
    let (cols, rows) = vt.size();
    if (cols, rows) != want {
        return Some(format!("size() = {:?}, requested {:?}", (cols, rows), want));
    }
    let view = vt.view();
    let lines = vt.lines();
    if view.len() != rows {
        return Some(format!("view().len() = {} != rows {}", view.len(), rows));
    }
    if lines.len() < rows {
        return Some(format!("lines().len() = {} < rows {}", lines.len(), rows));
    }
    let tail = &lines[lines.len() - rows..];
    if tail.as_ptr() != view.as_ptr() && tail != view {
        return Some("view() is not the tail of lines()".into());
    }
    for (i, l) in lines.iter().enumerate() {
        if l.len() != cols {
            return Some(format!("line {} has {} cells, cols = {}", i, l.len(), cols));
        }
        if l.cells().len() != cols {
            return Some(format!("line {} cells() has {} cells", i, l.cells().len()));
        }
    }
    if let Some(last) = lines.last() {
        if avt::util::TextUnwrapper::new().push(last).is_none() {
            return Some("last line is marked soft-wrapped".into());
        }
    }
    let c = vt.cursor();
    if c.row >= rows {
        return Some(format!("cursor row {} >= rows {}", c.row, rows));
    }
    if c.col > cols {
        return Some(format!("cursor col {} > cols {}", c.col, cols));
    }
    for n in 0..rows {
        if vt.line(n) != &view[n] {
            return Some(format!("line({}) differs from view()[{}]", n, n));
        }
    }
    None
}

pub fn changed_lines_broken(changed: &[usize], rows: usize) -> Option<String> {
    for w in changed.windows(2) {
        if w[0] >= w[1] {
            return Some(format!("Changes.lines not strictly increasing: {:?}", changed));
        }
    }
    if let Some(&m) = changed.last() {
        if m >= rows {
            return Some(format!("Changes.lines {:?} has index >= rows {}", changed, rows));
        }
    }
    None
}

/// One call on `avt::Builder`.
#[derive(Clone, Copy, Debug, PartialEq)]
pub enum BCall {
    Size(usize, usize),
    Limit(usize),
}

/// Every sequence of up to three builder calls over two sizes and three limits, with the
/// (size, limit) the built terminal must have: the last of each kind, else 80x24 / unlimited.
pub fn builder_sequences() -> Vec<(Vec<BCall>, (usize, usize), Option<usize>)> {
    let calls = [BCall::Size(3, 2), BCall::Size(5, 4), BCall::Limit(0), BCall::Limit(2), BCall::Limit(12)];
    let mut seqs: Vec<Vec<BCall>> = vec![vec![]];
    let mut level: Vec<Vec<BCall>> = vec![vec![]];
    for _ in 0..3 {
        let mut next = vec![];
        for s in &level {
            for c in calls {
                let mut x = s.clone();
                x.push(c);
                next.push(x);
            }
        }
        seqs.extend(next.iter().cloned());
        level = next;
    }
    seqs.into_iter()
        .map(|s| {
            let mut size = (80, 24);
            let mut limit = None;
            for c in &s {
                match c {
                    BCall::Size(a, b) => size = (*a, *b),
                    BCall::Limit(l) => limit = Some(*l),
                }
            }
            (s, size, limit)
        })
        .collect()
}

pub fn build_by(calls: &[BCall]) -> Vt {
    let mut b = Vt::builder();
    for c in calls {
        match c {
            BCall::Size(a, r) => {
                b.size(*a, *r);
            }
            BCall::Limit(l) => {
                b.scrollback_limit(*l);
            }
        }
    }
    b.build()
}
