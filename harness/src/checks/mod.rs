pub mod common;
pub mod c02;

use crate::report::{Ctx, Report};
use serde_json::Value;

pub fn run(ctx: &Ctx) -> Option<Report> {
    Some(match ctx.id.as_str() {
        "C02" => c02::run(ctx),
        _ => return None,
    })
}

pub fn replay(ctx: &Ctx, v: &Value) -> Option<bool> {
    Some(match ctx.id.as_str() {
        "C02" => c02::replay(ctx, v),
        _ => return None,
    })
}
