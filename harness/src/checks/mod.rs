pub mod common;
pub mod sweep;
pub mod stream;
pub mod c01;
pub mod c02;
pub mod c03;
pub mod c04;
pub mod c05;
pub mod c06;
pub mod c07;
pub mod c08;
pub mod c09;
pub mod c10;
pub mod c11;
pub mod c12;
pub mod c13;
pub mod c14;
pub mod c15;
pub mod c16;
pub mod c17;
pub mod c18;
pub mod c19;
pub mod c20;

use crate::report::{Ctx, Report};
use serde_json::Value;

pub fn run(ctx: &Ctx) -> Option<Report> {
    Some(match ctx.id.as_str() {
        "C01" => c01::run(ctx),
        "C02" => c02::run(ctx),
        "C03" => c03::run(ctx),
        "C04" => c04::run(ctx),
        "C05" => c05::run(ctx),
        "C06" => c06::run(ctx),
        "C07" => c07::run(ctx),
        "C08" => c08::run(ctx),
        "C09" => c09::run(ctx),
        "C10" => c10::run(ctx),
        "C11" => c11::run(ctx),
        "C12" => c12::run(ctx),
        "C13" => c13::run(ctx),
        "C14" => c14::run(ctx),
        "C15" => c15::run(ctx),
        "C16" => c16::run(ctx),
        "C17" => c17::run(ctx),
        "C18" => c18::run(ctx),
        "C19" => c19::run(ctx),
        "C20" => c20::run(ctx),
        _ => return None,
    })
}

pub fn replay(ctx: &Ctx, v: &Value) -> Option<bool> {
    Some(match ctx.id.as_str() {
        "C01" => c01::replay(ctx, v),
        "C02" => c02::replay(ctx, v),
        "C03" => c03::replay(ctx, v),
        "C04" => c04::replay(ctx, v),
        "C05" => c05::replay(ctx, v),
        "C06" => c06::replay(ctx, v),
        "C07" => c07::replay(ctx, v),
        "C08" => c08::replay(ctx, v),
        "C09" => c09::replay(ctx, v),
        "C10" => c10::replay(ctx, v),
        "C11" => c11::replay(ctx, v),
        "C12" => c12::replay(ctx, v),
        "C13" => c13::replay(ctx, v),
        "C14" => c14::replay(ctx, v),
        "C15" => c15::replay(ctx, v),
        "C16" => c16::replay(ctx, v),
        "C17" => c17::replay(ctx, v),
        "C18" => c18::replay(ctx, v),
        "C19" => c19::replay(ctx, v),
        "C20" => c20::replay(ctx, v),
        _ => return None,
    })
}
