pub mod common;
pub mod c01;
pub mod c02;
pub mod c09;
pub mod c10;
pub mod c11;
pub mod c12;
pub mod c13;
pub mod c14;
pub mod c15;
pub mod c19;
pub mod c20;

use crate::report::{Ctx, Report};
use serde_json::Value;

pub fn run(ctx: &Ctx) -> Option<Report> {
    Some(match ctx.id.as_str() {
        "C01" => c01::run(ctx),
        "C02" => c02::run(ctx),
        "C09" => c09::run(ctx),
        "C10" => c10::run(ctx),
        "C11" => c11::run(ctx),
        "C12" => c12::run(ctx),
        "C13" => c13::run(ctx),
        "C14" => c14::run(ctx),
        "C15" => c15::run(ctx),
        "C19" => c19::run(ctx),
        "C20" => c20::run(ctx),
        _ => return None,
    })
}

pub fn replay(ctx: &Ctx, v: &Value) -> Option<bool> {
    Some(match ctx.id.as_str() {
        "C01" => c01::replay(ctx, v),
        "C02" => c02::replay(ctx, v),
        "C09" => c09::replay(ctx, v),
        "C10" => c10::replay(ctx, v),
        "C11" => c11::replay(ctx, v),
        "C12" => c12::replay(ctx, v),
        "C13" => c13::replay(ctx, v),
        "C14" => c14::replay(ctx, v),
        "C15" => c15::replay(ctx, v),
        "C19" => c19::replay(ctx, v),
        "C20" => c20::replay(ctx, v),
        _ => return None,
    })
}
