//! C13 — scrollback retention bound.

use super::common::ghost_alt;
use crate::alphabets::*;
use crate::engine::{Out, System};
use crate::obs::fingerprint;
use crate::ops::Cmd::*;
use crate::ops::*;
use crate::report::*;
use avt::Vt;
use serde_json::Value;

pub struct Sys;

pub struct St {
    vt: Vt,
    alt: bool,
}

impl System for Sys {
    type St = St;
    fn init(&self, cfg: &Cfg) -> St {
        St {
            vt: cfg.build(),
            alt: false,
        }
    }
    fn step(&self, cfg: &Cfg, st: &mut St, op: &Op, out: Option<&mut Out>) {
        let ap = apply(&mut st.vt, op);
        st.alt = ghost_alt(st.alt, &op.cmd);
        if let Some(out) = out {
            if !ap.reported {
                return;
            }
            out.count("calls_checked");
            let rows = st.vt.size().1;
            let n = st.vt.lines().len();
            let l = cfg.limit.expect("C13 configs have a limit");
            let bound = rows + l + l / 10;
            if n > rows {
                out.count("calls_with_scrollback");
            }
            if n == bound && l > 0 {
                out.count("calls_at_bound");
            }
            if n > bound {
                out.violate(
                    "C13",
                    "retention-bound",
                    format!("lines().len() = {} > rows {} + L {} + L/10 {}", n, rows, l, l / 10),
                );
            } else if st.alt && n != rows {
                out.violate(
                    "C13",
                    "alternate-screen-keeps-none",
                    format!("alternate screen showing, lines().len() = {} != rows {}", n, rows),
                );
            }
            if st.alt {
                out.count("calls_on_alt_screen");
            }
            out.obs_hash = Some(n as u64 * 1000 + rows as u64);
        }
    }
    fn key(&self, st: &St) -> u128 {
        fingerprint(&st.vt)
    }
}

fn base() -> Vec<Op> {
    vec![
        t("a"),
        t("bcdefgh"),
        c(crlf()),
        c(lfs(3)),
        c(lfs(12)),
        c(lfs(25)),
        c(Seq(vec![Text("x".into()), Cr, Lf, Text("y".into()), Cr, Lf, Text("z".into()), Cr, Lf])),
        c(Su(Some(2))),
        c(Seq(vec![Cup(None, None), Dl(Some(1))])),
        c(Ri),
        c(Seq(vec![Cup(None, None), Il(Some(1))])),
        c(Decstbm(Some(1), Some(2))),
        c(Decstbm(None, None)),
        c(DecSet(vec![1047])),
        c(DecRst(vec![1047])),
        c(DecSet(vec![1049])),
        c(DecRst(vec![1049])),
        c(Ed(Some(2))),
        c(Ris),
        // several alternate-screen modes in one sequence
        c(DecRst(vec![1049, 1047])),
        c(DecRst(vec![47, 1049])),
        c(DecSet(vec![1047, 1049])),
        // calls that execute nothing must still honour a trim left pending by feed()
        Op::new(Inert(String::new())),
        Op::new(Inert("\x1b]0;t\x07".into())),
        // a string left open by one call; what ends it in a later call (ESC of the next
        // sequence, or an 8-bit control) is followed by scrolling output in that same call
        Op::new(Inert("\x1b]2;abc".into())),
        Op::new(Inert("\u{84}\u{84}\u{84}\u{84}\u{84}\u{84}\u{84}\u{84}\u{84}\u{84}\u{84}\u{84}".into())),
        Op::new(Inert("\u{9c}\n\n\n\n\n\n\n\n\n\n\n\n".into())),
        Op::new(Inert("\u{85}x\u{85}y\u{85}z\u{85}".into())),
    ]
}

fn alpha(_cfg: &Cfg) -> Vec<Op> {
    let mut v = base();
    let drops: Vec<Op> = v
        .iter()
        .filter(|o| matches!(&o.cmd, Seq(_) | Text(_) | Su(_)))
        .map(|o| o.clone().kind(Kind::FeedDrop))
        .collect();
    v.extend(drops);
    v.push(c(lfs(12)).kind(Kind::FeedPartial));
    v.push(c(lfs(12)).kind(Kind::FeedSplit));
    v.push(t("bcdefgh").kind(Kind::FeedSplit));
    v.push(c(lfs(3)).kind(Kind::FeedChars));
    v.push(c(lfs(25)).kind(Kind::FeedChars));
    for (cc, r) in [(1, 1), (1, 3), (2, 2), (3, 2), (5, 1), (2, 4)] {
        v.push(Op::resize(cc, r));
        v.push(Op::resize(cc, r).kind(Kind::ResizeDrop));
    }
    v
}

const LIMITS: &[Option<usize>] = &[
    Some(0),
    Some(1),
    Some(2),
    Some(3),
    Some(9),
    Some(10),
    Some(11),
    Some(20),
];

macro_rules! parts {
    ($tier:expr) => {{
        let tier: Tier = $tier;
        Part {
            name: "scroll-resize",
            sys: &Sys,
            cfgs: match tier {
                Tier::Quick => cfgs(&[(3, 2), (2, 3), (1, 2)], LIMITS),
                Tier::Thorough => cfgs(&[(3, 2), (2, 3), (2, 2), (1, 2), (3, 3)], LIMITS),
            },
            alphabet: &alpha,
            depth: tier.pick(4, 6),
            seconds: tier.pick(35.0, 1800.0),
            validated: false,
            nontrivial: Some("calls_with_scrollback"),
        }
    }};
}

fn alpha_plain_runs(cfg: &Cfg) -> Vec<Op> {
    let mut v = alpha(cfg);
    v.retain(|o| o.kind != Kind::Resize && o.kind != Kind::ResizeDrop);
    v.push(t("abcdefghijklmnopq"));
    v.push(t("0123456789abcdef"));
    v.push(Op::resize(20, 1));
    v.push(Op::resize(17, 3));
    v
}

/// the same on a screen wide enough for runs of plain text that stay within one row
fn plain_runs_part(tier: Tier) -> Part<'static, Sys> {
    Part {
        name: "plain-runs-on-a-wider-screen",
        sys: &Sys,
        cfgs: cfgs(&[(20, 2)], &[Some(0), Some(3), Some(10)]),
        alphabet: &alpha_plain_runs,
        depth: tier.pick(3, 4),
        seconds: tier.pick(12.0, 600.0),
        validated: false,
        nontrivial: Some("calls_with_scrollback"),
    }
}

/// "With scrollback limit L": however the builder was told - every order and repetition
/// of its calls (two terminals from one builder included).
fn builder_orders(ctx: &Ctx, rep: &mut Report) {
    use super::common::{build_by, builder_sequences};
    let seqs = builder_sequences();
    let mut n = 0u64;
    for (calls, size, limit) in &seqs {
        let r = crate::engine::guarded(|| {
            for which in 0..2 {
                let mut vt = build_by(calls);
                if which == 1 {
                    // the same call sequence, but the terminal is the second one built
                    let mut b = avt::Vt::builder();
                    for c in calls {
                        match c {
                            super::common::BCall::Size(a, r) => {
                                b.size(*a, *r);
                            }
                            super::common::BCall::Limit(l) => {
                                b.scrollback_limit(*l);
                            }
                        }
                    }
                    let _first = b.build();
                    vt = b.build();
                }
                if vt.size() != *size {
                    return Some(format!("size() = {:?}, the builder was told {:?}", vt.size(), size));
                }
                let rows = size.1;
                for k in 0..3 {
                    let feed = "\n".repeat(rows + 40);
                    let _ = vt.feed_str(&feed);
                    let len = vt.lines().len();
                    match limit {
                        Some(l) => {
                            let bound = rows + l + l / 10;
                            if len > bound || (*l == 0 && len != rows) {
                                return Some(format!("after call {} lines().len() = {} > rows {} + L {} + L/10", k + 1, len, rows, l));
                            }
                        }
                        None => {
                            // no limit given: nothing is ever trimmed (the first rows-1 feeds only move the cursor)
                            let want = rows + (rows + 40) * (k + 1) - (rows - 1);
                            if len != want {
                                return Some(format!("unlimited scrollback: lines().len() = {} after {} line feeds, expected {}", len, (rows + 40) * (k + 1), want));
                            }
                        }
                    }
                }
            }
            None
        });
        n += 2;
        let bad = match r {
            Ok(None) => None,
            Ok(Some(d)) => Some(d),
            Err(p) => Some(format!("panic: {}", p)),
        };
        if let Some(d) = bad {
            emit_violation(ctx, rep, "C13", serde_json::json!({"part":"builder-call-orders","builder_calls":format!("{:?}", calls),"oracle":"retention-bound","observed":d}));
            break;
        }
    }
    rep.evaluations += n;
    rep.traces_validated += n;
    rep.parts.push(serde_json::json!({"part":"builder-call-orders","call_sequences":seqs.len(),"terminals":n}));
    println!("part builder-call-orders: {} call sequences, {} terminals", seqs.len(), n);
}

/// Tall screens with small limits, scrolled a line or two per call: the bound is a bound on
/// `rows + L + L/10` whatever the ratio of the three; every row count around the powers of
/// two and of ten up to 10 000 (thorough 70 000) x every small limit x four ways of scrolling
/// a little per call (Changes consumed and dropped), the bound after EVERY call.
fn tall_screens(ctx: &Ctx, rep: &mut Report) {
    use rayon::prelude::*;
    let mut rows: Vec<usize> = vec![];
    for k in 5..=ctx.tier.pick(13u32, 16) {
        let b = 1usize << k;
        rows.extend([b - 1, b, b + 1]);
    }
    rows.extend([100, 200, 300, 500, 600, 1000, 1200, 5000, 10_000]);
    if ctx.tier == Tier::Thorough {
        rows.extend([20_000, 50_000, 70_000]);
    }
    rows.sort();
    rows.dedup();
    let limits = [0usize, 1, 2, 3, 9, 10, 11, 25, 100, 1000];
    let scripts: [(&str, &str); 4] = [("one line feed", "\n"), ("a short line", "x\r\n"), ("two lines", "ab\r\ncd\r\n"), ("a wrapped line", "abcdefghijklmnopqrstuvwxyz\r\n")];
    let cases: Vec<(usize, usize, usize)> = rows.iter().flat_map(|&r| limits.iter().flat_map(move |&l| (0..scripts.len()).map(move |s| (r, l, s)))).collect();
    let bad: Vec<String> = cases
        .par_iter()
        .filter_map(|&(r, l, si)| {
            let res = crate::engine::guarded(|| {
                for cols in [10usize, 4] {
                    let mut vt = build_vt(cols, r, Some(l));
                    let bound = r + l + l / 10;
                    let _ = vt.feed_str(&format!("\x1b[{};1H", r));
                    for call in 0..(l + l / 10 + 8).min(40) {
                        if call % 2 == 0 {
                            let _ = vt.feed_str(scripts[si].1).scrollback.count();
                        } else {
                            let _ = vt.feed_str(scripts[si].1);
                        }
                        let n = vt.lines().len();
                        if n > bound || (l == 0 && n != r) {
                            return Some(format!("{}x{}, limit {}: after call {} ({}) lines() has {} lines, the bound is {}", cols, r, l, call + 1, scripts[si].0, n, bound));
                        }
                    }
                    let _ = vt.resize(cols, r - 1);
                    let n = vt.lines().len();
                    if n > r - 1 + l + l / 10 {
                        return Some(format!("{}x{}, limit {}: after shrinking by one row lines() has {} lines, the bound is {}", cols, r, l, n, r - 1 + l + l / 10));
                    }
                }
                None
            });
            match res {
                Ok(x) => x,
                Err(p) => Some(format!("{} rows, limit {}: panic: {}", r, l, p)),
            }
        })
        .collect();
    let n = cases.len() as u64;
    rep.evaluations += n * 40;
    rep.transitions += n * 40;
    rep.parts.push(serde_json::json!({"part":"tall-screens-small-limits","row_counts":rows.len(),"max_rows":rows.last(),"limits":limits.len(),"scripts":scripts.len(),"cases":n,"violating":bad.len()}));
    println!("part tall-screens-small-limits: {} (rows, limit, script) cases up to {} rows, {} violating", n, rows.last().unwrap(), bad.len());
    if let Some(d) = bad.first() {
        emit_violation(ctx, rep, "C13", serde_json::json!({"part":"tall-screens-small-limits","oracle":"retention-bound","observed":d}));
        rep.violations += bad.len() as u64 - 1;
    }
}

/// Limits in the millions: the bound is `rows + L + L/10` for every L, also where a
/// floating-point factor or a "practically unlimited" cut-off would start to differ - one
/// burst past the hard limit, then line by line, then a shrink.
fn huge_limits(ctx: &Ctx, rep: &mut Report) {
    use rayon::prelude::*;
    let limits: Vec<usize> = ctx.tier.pick(vec![1_000_000, 1_048_577, 1_572_869, 1_572_879], vec![999_999, 1_000_000, 1_048_577, 1_572_869, 1_572_879, 1_600_003, 2_000_001, 2_999_999, 4_194_305]);
    let bad: Vec<String> = limits
        .par_iter()
        .filter_map(|&l| {
            let r = crate::engine::guarded(|| {
                let rows = 2usize;
                let bound = rows + l + l / 10;
                let mut vt = build_vt(2, rows, Some(l));
                let _ = vt.feed_str("\x1b[2;1H");
                // up to the hard limit exactly (allowed), in bursts
                let mut fed = 0usize;
                let target = l + l / 10 + 1; // rows-1 lines stay on screen, so this many LFs fill the scrollback to hard
                let burst = "\n".repeat(100_000);
                while fed + 100_000 <= target {
                    let _ = vt.feed_str(&burst);
                    fed += 100_000;
                    if vt.lines().len() > bound {
                        return Some(format!("after {} line feeds lines() has {} lines, the bound is {}", fed, vt.lines().len(), bound));
                    }
                }
                let _ = vt.feed_str(&"\n".repeat(target - fed));
                for k in 0..6 {
                    let n = vt.lines().len();
                    if n > bound {
                        return Some(format!("after {} line feeds lines() has {} lines, the bound is {}", target + k, n, bound));
                    }
                    let _ = vt.feed_str("x\r\n");
                }
                let _ = vt.resize(2, 1);
                let n = vt.lines().len();
                if n > 1 + l + l / 10 {
                    return Some(format!("after shrinking to one row lines() has {} lines, the bound is {}", n, 1 + l + l / 10));
                }
                let _ = vt.feed_str("\x1bc");
                let _ = vt.feed_str(&"\n".repeat(target + 3));
                let n = vt.lines().len();
                if n > 1 + l + l / 10 {
                    return Some(format!("after a hard reset and {} line feeds lines() has {} lines, the bound is {}", target + 3, n, 1 + l + l / 10));
                }
                None
            });
            match r {
                Ok(None) => None,
                Ok(Some(d)) => Some(format!("limit {}: {}", l, d)),
                Err(p) => Some(format!("limit {}: panic: {}", l, p)),
            }
        })
        .collect();
    let n = limits.len() as u64;
    rep.evaluations += n * 30;
    rep.transitions += n * 30;
    rep.parts.push(serde_json::json!({"part":"limits-in-the-millions","limits":limits,"violating":bad.len()}));
    println!("part limits-in-the-millions: {} limits, {} violating", n, bad.len());
    if let Some(d) = bad.first() {
        emit_violation(ctx, rep, "C13", serde_json::json!({"part":"limits-in-the-millions","oracle":"retention-bound","observed":d}));
        rep.violations += bad.len() as u64 - 1;
    }
}

pub fn run(ctx: &Ctx) -> Report {
    let mut rep = Report::new();
    let p = parts!(ctx.tier);
    run_part(ctx, &mut rep, &p);
    let p2 = plain_runs_part(ctx.tier);
    run_part(ctx, &mut rep, &p2);
    builder_orders(ctx, &mut rep);
    tall_screens(ctx, &mut rep);
    huge_limits(ctx, &mut rep);
    rep.rule = "BFS over histories of scroll-producing feeds (drained, dropped, partially drained, per-char) and resizes for limits 0,1,2,3,9,10,11,20; after every feed_str/resize call lines().len() is compared with rows+L+floor(L/10) and with rows on the alternate screen; non-trivial = calls that return with scrollback present; builder-call-orders: every sequence of <= 3 Builder calls over two sizes and three limits (156 sequences, first and second terminal built), then three scrolling calls under the bound of the limit last given".into();
    rep.assumptions = vec![
        "alternate-screen showing is tracked syntactically from the commands (the one unterminated string of the alphabet is ended by the ESC that begins every mode command, so the command is still executed)".into(),
        "the bound is not required after feed() (no Changes value is returned); it is checked at the next feed_str/resize".into(),
    ];
    rep
}

pub fn replay(ctx: &Ctx, v: &Value) -> bool {
    if v["part"] == "builder-call-orders" {
        let mut rep = Report::new();
        builder_orders(ctx, &mut rep);
        return rep.violations > 0;
    }
    let tier = if v["tier"] == "thorough" { Tier::Thorough } else { Tier::Quick };
    if v["part"] == "limits-in-the-millions" {
        let mut rep = Report::new();
        let c2 = Ctx { id: ctx.id.clone(), tier, seed: 0, start: ctx.start, known: ctx.known.clone(), replay_dir: ctx.replay_dir.clone() };
        huge_limits(&c2, &mut rep);
        return rep.violations > 0;
    }
    if v["part"] == "tall-screens-small-limits" {
        let mut rep = Report::new();
        let c2 = Ctx { id: ctx.id.clone(), tier, seed: 0, start: ctx.start, known: ctx.known.clone(), replay_dir: ctx.replay_dir.clone() };
        tall_screens(&c2, &mut rep);
        return rep.violations > 0;
    }
    if v["part"] == "plain-runs-on-a-wider-screen" {
        let p2 = plain_runs_part(tier);
        return replay_part(ctx, &p2, v);
    }
    let p = parts!(tier);
    replay_part(ctx, &p, v)
}
