//! C04 — printing, auto-wrap, insert mode, charsets (lock-step with RefTerm).

use crate::lockstep::LockStep;
use crate::ops::Cmd::*;
use crate::ops::*;
use crate::refterm::GFX;
use crate::report::*;
use serde_json::{json, Value};

fn alpha(cfg: &Cfg) -> Vec<Op> {
    let rows = cfg.rows as u32;
    let cols = cfg.cols as u32;
    let mut v: Vec<Op> = vec![
        t("a"),
        t("q"),
        t("\x7f"),
        t("é"),
        t("漢"),
        t("\u{161}"),
        t("\u{301}"),
        t(" "),
        t("bc"),
        c(Rep(None)),
        c(Rep(Some(2))),
        c(Rep(Some(cols))),
        c(Rep(Some(cols + 1))),
        c(DecRst(vec![7])),
        c(DecSet(vec![7])),
        c(Sm(vec![4])),
        c(Rm(vec![4])),
        c(So),
        c(Si),
        c(Desig(0, true)),
        c(Desig(0, false)),
        c(Desig(1, true)),
        calt(Desig(1, false), 1),
        // setup
        c(Cr),
        c(Lf),
        c(Cup(None, None)),
        c(Cup(Some(rows), Some(cols))),
        c(Cup(Some(1), Some(cols))),
        c(Cuu(None)),
        c(Cub(None)),
        c(Decstbm(Some(1), Some(rows.saturating_sub(1)))),
        c(Decstbm(Some(2), Some(rows))),
        c(Decstbm(Some(2), Some(rows.saturating_sub(1)))),
        c(sgr1(41)),
        c(sgr1(1)),
        c(sgr1(0)),
    ];
    v.push(Op::resize(cfg.cols + 1, cfg.rows));
    v.push(Op::resize(cfg.cols.max(2) - 1, cfg.rows));
    v.push(Op::resize(cfg.cols, cfg.rows + 1));
    v
}

macro_rules! parts {
    ($tier:expr, $sys:expr) => {{
        let tier: Tier = $tier;
        Part {
            name: "print-lockstep",
            sys: $sys,
            cfgs: match tier {
                Tier::Quick => cfgs(&[(1, 1), (3, 1), (1, 2), (2, 2), (3, 3), (2, 3)], &[None]),
                Tier::Thorough => cfgs(&[(1, 1), (1, 2), (2, 1), (3, 1), (2, 2), (3, 2), (2, 3), (3, 3), (4, 2), (2, 4)], &[None]),
            },
            alphabet: &alpha,
            depth: tier.pick(4, 5),
            seconds: tier.pick(40.0, 2400.0),
            validated: true,
            nontrivial: Some("lockstep_transitions"),
        }
    }};
}

static SYS: LockStep = LockStep { property: "C04", probes: true, seed: None, via_feed: false, merged: false };
static SYS_MED: LockStep = LockStep { property: "C04", probes: false, seed: None, via_feed: false, merged: false };

fn alpha_medium(cfg: &Cfg) -> Vec<Op> {
    let mut v = alpha(cfg);
    for n in [3u32, 5, 7, 12, 255, 256, 257] {
        v.push(c(Rep(Some(n))));
    }
    v.push(t("hello, world"));
    v.push(c(Cup(Some(3), Some(4))));
    v.push(c(Cup(Some(4), Some(6))));
    v.push(c(Decstbm(Some(2), Some(4))));
    v.push(c(Decstbm(Some(3), Some(4))));
    v
}

fn medium_part(tier: Tier) -> Part<'static, LockStep> {
    Part {
        name: "print-lockstep-medium-screen",
        sys: &SYS_MED,
        cfgs: match tier {
            Tier::Quick => cfgs(&[(6, 5)], &[None]),
            Tier::Thorough => cfgs(&[(6, 5), (7, 6)], &[None]),
        },
        alphabet: &alpha_medium,
        depth: tier.pick(3, 5),
        seconds: tier.pick(20.0, 1800.0),
        validated: true,
        nontrivial: Some("lockstep_transitions"),
    }
}

/// Full translation table: 0x20..0x7f x {Ascii, Drawing} x {G0, G1 active}.
fn charset_table(ctx: &Ctx, rep: &mut Report) {
    let mut n = 0u64;
    for code in 0x20u32..=0x7f {
        let ch = char::from_u32(code).unwrap();
        for drawing in [false, true] {
            for slot in [0u8, 1u8] {
                for spell8 in [false, true] {
                    let got = crate::engine::guarded(|| {
                        let mut vt = build_vt(1, 1, Some(0));
                        let desig = format!(
                            "\x1b{}{}",
                            if slot == 0 { '(' } else { ')' },
                            if drawing { '0' } else { 'B' }
                        );
                        let _ = vt.feed_str(&desig);
                        let _ = vt.feed_str(if slot == 0 { "\x0f" } else { "\x0e" });
                        if spell8 {
                            vt.feed(ch);
                        } else {
                            let _ = vt.feed_str(&ch.to_string());
                        }
                        vt.view()[0].cells()[0].char()
                    });
                    let got = match got {
                        Ok(g) => g,
                        Err(p) => {
                            emit_violation(ctx, rep, "C04", json!({"part":"charset-table","code":code,"drawing":drawing,"slot":slot,
                                "oracle":"panic","observed":p}));
                            return;
                        }
                    };
                    let want = if drawing && (0x60..=0x7e).contains(&code) {
                        GFX[(code - 0x60) as usize]
                    } else {
                        ch
                    };
                    n += 1;
                    if got != want {
                        emit_violation(ctx, rep, "C04", json!({"part":"charset-table","code":code,"drawing":drawing,"slot":slot,
                            "oracle":"vt100-special-graphics","observed":format!("{:?}, expected {:?}", got, want)}));
                        return;
                    }
                }
            }
        }
    }
    // EVERY designator final 0x30..=0x7E into G0 and G1: only `0` (DEC special graphics)
    // translates anything; under every other designation each of 0x20..=0x7E prints as itself
    for fin in 0x30u32..=0x7e {
        let f = char::from_u32(fin).unwrap();
        for slot in [0u8, 1u8] {
            for code in 0x20u32..=0x7e {
                let ch = char::from_u32(code).unwrap();
                let got = crate::engine::guarded(|| {
                    let mut vt = build_vt(2, 1, Some(0));
                    let _ = vt.feed_str(&format!("\x1b{}{}{}", if slot == 0 { '(' } else { ')' }, f, if slot == 0 { "\x0f" } else { "\x0e" }));
                    let _ = vt.feed_str(&ch.to_string());
                    // and repeated (REP goes through the translation again)
                    let _ = vt.feed_str("\x1b[b");
                    (vt.view()[0].cells()[0].char(), vt.view()[0].cells()[1].char())
                });
                let want = if f == '0' && (0x60..=0x7e).contains(&code) { GFX[(code - 0x60) as usize] } else { ch };
                n += 1;
                match got {
                    Ok((a, b)) if a == want && b == want => {}
                    Ok((a, b)) => {
                        emit_violation(ctx, rep, "C04", json!({"part":"charset-table","code":code,"drawing":f == '0',"slot":slot,"designator":f.to_string(),
                            "oracle":"only-special-graphics-translates","observed":format!("after ESC {} {}: {:?} printed as {:?} (repeated: {:?}), expected {:?}", if slot == 0 { '(' } else { ')' }, f, ch, a, b, want)}));
                        return;
                    }
                    Err(p) => {
                        emit_violation(ctx, rep, "C04", json!({"part":"charset-table","code":code,"drawing":false,"slot":slot,"designator":f.to_string(),"oracle":"panic","observed":p}));
                        return;
                    }
                }
            }
        }
    }
    // every Unicode scalar >= 0x80 that prints (i.e. >= U+00A0) passes through both
    // charsets unchanged: only 0x60-0x7e are ever remapped
    use rayon::prelude::*;
    let all: Vec<u32> = (0xa0u32..=0x10FFFF).filter(|c| char::from_u32(*c).is_some()).collect();
    let bad: Vec<(u32, bool, char)> = all
        .par_iter()
        .filter_map(|&code| {
            let ch = char::from_u32(code).unwrap();
            for drawing in [true, false] {
                let got = crate::engine::guarded(|| {
                    let mut vt = build_vt(1, 1, Some(0));
                    let _ = vt.feed_str(if drawing { "\x1b(0" } else { "\x1b)0" });
                    vt.feed(ch);
                    vt.view()[0].cells()[0].char()
                });
                match got {
                    Ok(g) if g == ch => {}
                    Ok(g) => return Some((code, drawing, g)),
                    Err(_) => return Some((code, drawing, '\u{fffd}')),
                }
            }
            None
        })
        .collect();
    n += all.len() as u64 * 2;
    if let Some((code, drawing, got)) = bad.first() {
        emit_violation(ctx, rep, "C04", json!({"part":"charset-table","code":code,"drawing":drawing,"slot":0,
            "oracle":"only-0x60-0x7e-are-translated","observed":format!("U+{:04X} printed as {:?}", code, got)}));
    }
    rep.evaluations += n;
    rep.traces_validated += n;
    rep.parts.push(json!({"part":"charset-table","cases":n,"all_scalars_from_U+00A0":all.len()}));
}

static SYS_CORE: LockStep = LockStep { property: "C04", probes: false, seed: None, via_feed: false, merged: false };
static SYS_SPARSE: LockStep = LockStep { property: "C04", probes: false, seed: Some(&super::sweep::fill_sparse), via_feed: false, merged: false };

/// the core of printing - wrap, insert, repeat, wide and zero-width characters, a region
/// that ends above the last row - over a small alphabet, deeper
fn alpha_core(cfg: &Cfg) -> Vec<Op> {
    let rows = cfg.rows as u32;
    let over: String = "abcdefghij".chars().take(cfg.cols + 1).collect();
    vec![
        t("a"),
        t("漢"),
        t("\u{301}"),
        Op::text(&over),
        c(Rep(Some(2))),
        c(Sm(vec![4])),
        c(Rm(vec![4])),
        c(DecRst(vec![7])),
        c(DecSet(vec![7])),
        c(Cr),
        c(Lf),
        c(Cup(Some(99), Some(99))),
        c(Decstbm(Some(1), Some(rows.saturating_sub(1).max(2)))),
        // blanks that were TYPED (with whatever pen) are characters like any other
        t(" "),
        c(sgr1(4)),
        // a soft reset switches insert mode off like RM 4 does
        c(Decstr),
        // G2 / G3 and the single / locking shifts of other terminals: not implemented here, so the
        // next character is translated through G0 / G1 as ever
        Op::new(Inert("\x1b*0".into())),
        Op::new(Inert("\x1bN".into())),
        Op::new(Inert("\u{8f}".into())),
    ]
}

fn core_part(tier: Tier) -> Part<'static, LockStep> {
    Part {
        name: "print-core-deep",
        sys: &SYS_CORE,
        cfgs: match tier {
            Tier::Quick => cfgs(&[(3, 3)], &[None]),
            Tier::Thorough => cfgs(&[(3, 3), (2, 2), (4, 3)], &[None]),
        },
        alphabet: &alpha_core,
        depth: tier.pick(6, 8),
        seconds: tier.pick(20.0, 1800.0),
        validated: true,
        nontrivial: Some("lockstep_transitions"),
    }
}

static SYS_CORE_MERGED: LockStep = LockStep { property: "C04", probes: false, seed: None, via_feed: false, merged: true };

/// the core alphabet again, less deep, with twin terminals that get the same history with
/// fewer call boundaries (two ops per call, even and odd phase) - see DESIGN 3.2
fn core_merged_part(tier: Tier) -> Part<'static, LockStep> {
    let mut p = core_part(tier);
    p.name = "print-core-with-merged-calls";
    p.sys = &SYS_CORE_MERGED;
    p.cfgs.retain(|c| c.limit.is_none());
    p.depth = tier.pick(5, 7);
    p.seconds = tier.pick(15.0, 900.0);
    p
}

static SYS_SWEEP: LockStep = LockStep { property: "C04", probes: false, seed: Some(&super::sweep::fill), via_feed: false, merged: false };

fn alpha_sweep(cfg: &Cfg) -> Vec<Op> {
    let mut v = super::sweep::placements(cfg, false);
    v.extend(super::sweep::print_funcs(cfg));
    v
}

static SYS_MODES: LockStep = LockStep { property: "C04", probes: false, seed: None, via_feed: false, merged: false };

fn alpha_wide(cfg: &Cfg) -> Vec<Op> {
    super::sweep::layered(super::sweep::wide_placements(cfg), super::sweep::wide_print_funcs(cfg))
}

/// One logical line of more than 2^22 cells: every row but the last is soft-wrapped, on a
/// 1024-column screen typed through and on a 65535-column screen reached by CHA + two
/// characters per row ("marks the row it left" has no upper limit).
fn very_long_logical_line(ctx: &Ctx, rep: &mut Report) {
    let mut bad: Option<String> = None;
    let cases: [(usize, usize); 2] = [(1024, ctx.tier.pick(4100, 17000)), (65535, ctx.tier.pick(70, 300))];
    for (cols, nrows) in cases {
        let r = crate::engine::guarded(|| {
            let mut tc = avt::util::TextCollector::new(build_vt(cols, 2, Some(0)));
            let mut out: Vec<String> = vec![];
            if cols == 1024 {
                let row = "x".repeat(cols);
                for _ in 0..nrows {
                    out.extend(tc.feed_str(&row));
                }
                out.extend(tc.feed_str("y"));
            } else {
                for _ in 0..nrows {
                    out.extend(tc.feed_str(&format!("\x1b[{}Gab", cols)));
                }
            }
            out.extend(tc.flush());
            while out.last().map(|s| s.is_empty()).unwrap_or(false) {
                out.pop();
            }
            if out.len() != 1 {
                return Some(format!("{} columns, {} rows typed through the right edge: {} logical lines instead of 1", cols, nrows, out.len()));
            }
            None
        });
        match r {
            Ok(None) => {}
            Ok(Some(d)) => bad = bad.or(Some(d)),
            Err(p) => bad = bad.or(Some(format!("{} columns: panic: {}", cols, p))),
        }
    }
    rep.evaluations += 2;
    rep.traces_validated += 2;
    rep.parts.push(json!({"part":"very-long-logical-line","cases":2,"violating":bad.is_some() as u32}));
    println!("part very-long-logical-line: 2 cases, {} violating", bad.is_some() as u32);
    if let Some(d) = bad {
        emit_violation(ctx, rep, "C04", json!({"part":"very-long-logical-line","oracle":"reference-terminal","observed":d}));
    }
}

pub fn run(ctx: &Ctx) -> Report {
    let mut rep = Report::new();
    let p = parts!(ctx.tier, &SYS);
    run_part(ctx, &mut rep, &p);
    run_part(ctx, &mut rep, &medium_part(ctx.tier));
    run_part(ctx, &mut rep, &super::sweep::sweep_part("print-large-screen-parameter-sweep", &SYS_SWEEP, &alpha_sweep, ctx.tier));
    run_part(ctx, &mut rep, &super::sweep::wide_part("print-realistic-screen-parameter-sweep", &SYS_SWEEP, &alpha_wide, ctx.tier));
    run_part(ctx, &mut rep, &super::sweep::wide_part("print-realistic-screen-sparse-content", &SYS_SPARSE, &alpha_wide, ctx.tier));
    run_part(ctx, &mut rep, &core_part(ctx.tier));
    run_part(ctx, &mut rep, &core_merged_part(ctx.tier));
    very_long_logical_line(ctx, &mut rep);
    run_part(ctx, &mut rep, &super::sweep::mode_part(&SYS_MODES, ctx.tier));
    super::sweep::mode_number_sweep(ctx, &mut rep, &SYS_MODES);
    charset_table(ctx, &mut rep);
    rep.rule = "lock-step BFS of (real Vt, reference terminal) over single printable chars (ASCII, drawing range, DEL, Latin-1, CJK, space), a 2-char text, REP with counts around the width, DECAWM/IRM toggles, SO/SI, G0/G1 designations, and setup ops (cursor placement incl. last column and rows below the bottom margin, margins, pen, resizes); full grid, scrollback, cursor, hidden modes and the wrap mark of the row left by a wrap are compared after every transition; plus the complete 0x20-0x7f x charset x slot translation table".into();
    rep.assumptions = vec!["readings R1-R7 of DESIGN.md §3.2 (R3: wrap on the last row below the bottom margin does not scroll and does not mark)".into()];
    rep
}

pub fn replay(ctx: &Ctx, v: &Value) -> bool {
    if v["part"] == "charset-table" {
        let mut rep = Report::new();
        charset_table(ctx, &mut rep);
        return rep.violations > 0;
    }
    let tier = if v["tier"] == "thorough" { Tier::Thorough } else { Tier::Quick };
    if v["part"] == "print-realistic-screen-sparse-content" {
        return replay_part(ctx, &super::sweep::wide_part("print-realistic-screen-sparse-content", &SYS_SPARSE, &alpha_wide, tier), v);
    }
    if v["part"] == "very-long-logical-line" {
        let mut rep = Report::new();
        very_long_logical_line(ctx, &mut rep);
        return rep.violations > 0;
    }
    if v["part"] == "print-core-deep" {
        return replay_part(ctx, &core_part(tier), v);
    }
    if v["part"] == "print-core-with-merged-calls" {
        return replay_part(ctx, &core_merged_part(tier), v);
    }
    if v["part"] == "print-lockstep-medium-screen" {
        return replay_part(ctx, &medium_part(tier), v);
    }
    if v["part"] == "every-mode-number" {
        return super::sweep::mode_number_replay(ctx, &SYS_MODES);
    }
    if v["part"] == "mode-list-shapes" {
        return replay_part(ctx, &super::sweep::mode_part(&SYS_MODES, tier), v);
    }
    if v["part"] == "print-realistic-screen-parameter-sweep" {
        return replay_part(ctx, &super::sweep::wide_part("print-realistic-screen-parameter-sweep", &SYS_SWEEP, &alpha_wide, tier), v);
    }
    if v["part"] == "print-large-screen-parameter-sweep" {
        return replay_part(ctx, &super::sweep::sweep_part("print-large-screen-parameter-sweep", &SYS_SWEEP, &alpha_sweep, tier), v);
    }
    let p = parts!(tier, &SYS);
    replay_part(ctx, &p, v)
}
