//! C14 — no scrolled-off line is lost, duplicated, reordered or altered.

use super::common::ghost_alt;
use crate::alphabets::*;
use crate::engine::{Out, System};
use crate::obs::{fingerprint, fp_combine, fp_str};
use crate::ops::Cmd::*;
use crate::ops::*;
use crate::report::*;
use avt::util::TextCollector;
use avt::{Line, Vt};
use serde_json::Value;

pub struct Sys;

pub struct St {
    lim: Vt,
    unl: Vt,
    collected: Vec<Line>,
    chash: u128,
    alt: bool,
}

fn strip(mut v: Vec<String>) -> Vec<String> {
    while v.last().map(|s| s.is_empty()).unwrap_or(false) {
        v.pop();
    }
    v
}

fn collect_text(limit: Option<usize>, cfg: &Cfg, hist: &[&Op], per_char_split: bool) -> Vec<String> {
    let mut tc = TextCollector::new(build_vt(cfg.cols, cfg.rows, limit));
    let mut out: Vec<String> = vec![];
    for op in hist {
        if per_char_split {
            let mut b = [0u8; 4];
            for ch in op.text.chars() {
                out.extend(tc.feed_str(ch.encode_utf8(&mut b)));
            }
        } else {
            out.extend(tc.feed_str(&op.text));
        }
    }
    out.extend(tc.flush());
    strip(out)
}

impl System for Sys {
    type St = St;
    fn init(&self, cfg: &Cfg) -> St {
        St {
            lim: cfg.build(),
            unl: build_vt(cfg.cols, cfg.rows, None),
            collected: vec![],
            chash: 0,
            alt: false,
        }
    }
    fn step(&self, _cfg: &Cfg, st: &mut St, op: &Op, out: Option<&mut Out>) {
        let ap = apply(&mut st.lim, op);
        let _ = apply(&mut st.unl, op);
        st.alt = ghost_alt(st.alt, &op.cmd);
        let handed = ap.scrollback.len();
        for l in ap.scrollback {
            st.chash = fp_combine(st.chash, fp_str(&format!("{:?}", l)));
            st.collected.push(l);
        }
        if let Some(out) = out {
            out.count("calls_checked");
            if handed > 0 {
                out.count("calls_handing_out_lines");
            }
            if st.alt {
                if handed > 0 {
                    out.violate(
                        "C14",
                        "alternate-screen-leak",
                        format!("{} lines handed out while the alternate screen is showing", handed),
                    );
                }
                return;
            }
            let a = st.unl.lines();
            let b = st.lim.lines();
            let n = st.collected.len();
            let ok = a.len() == n + b.len()
                && a[..n] == st.collected[..]
                && a[n..] == b[..];
            if !ok {
                let show = |ls: &[Line]| ls.iter().map(|l| format!("{:?}", l)).collect::<Vec<_>>().join(",");
                out.violate(
                    "C14",
                    "stream-plus-lines-equals-unlimited",
                    format!(
                        "handed out [{}] ++ lines() [{}] != unlimited lines() [{}]",
                        show(&st.collected),
                        show(b),
                        show(a)
                    ),
                );
            }
            out.obs_hash = Some((n * 100 + b.len()) as u64);
        }
    }
    fn key(&self, st: &St) -> u128 {
        fp_combine(
            fp_combine(fingerprint(&st.lim), fingerprint(&st.unl)),
            st.chash,
        )
    }
    fn on_state(&self, cfg: &Cfg, hist: &[&Op], st: &mut St, _rebuild: &dyn Fn() -> St, out: &mut Out) {
        if st.alt {
            return;
        }
        // TextCollector: same text for every limit and chunking
        let want = collect_text(None, cfg, hist, false);
        for (lim, split) in [(cfg.limit, false), (cfg.limit, true), (None, true)] {
            out.count("text_collector_runs");
            let got = collect_text(lim, cfg, hist, split);
            if got != want {
                out.violate(
                    "C14",
                    "text-collector-independent-of-limit",
                    format!(
                        "TextCollector(limit {:?}, per-char chunks {}) = {:?}, unlimited single-call = {:?}",
                        lim, split, got, want
                    ),
                );
                return;
            }
        }
    }
}

fn alpha(cfg: &Cfg) -> Vec<Op> {
    let mut v = vec![
        t("a"),
        t("bcdefgh"),
        // text followed by enough blanks to cross the right margin: the logical line ends in
        // rows of nothing but spaces (what a `printf '%-81s'` leaves behind)
        Op::text(&format!("k{}", " ".repeat(cfg.cols))),
        Op::text(&format!("{}\r\nz", " ".repeat(cfg.cols + 2))),
        c(crlf()),
        c(lfs(3)),
        c(lfs(12)),
        c(Seq(vec![Text("x".into()), Cr, Lf, Text("y".into()), Cr, Lf, Text("z".into()), Cr, Lf])),
        c(Su(Some(2))),
        c(Seq(vec![Cup(None, None), Dl(Some(1))])),
        c(Ri),
        c(Seq(vec![Cup(None, None), Il(Some(1))])),
        c(Decstbm(Some(1), Some(2))),
        c(Decstbm(Some(2), Some(3))),
        c(Decstbm(None, None)),
        c(sgr1(41)),
        c(DecSet(vec![1047])),
        c(DecRst(vec![1047])),
        c(DecSet(vec![1049])),
        c(DecRst(vec![1049])),
        c(Ed(Some(2))),
        // functions that act on the SCREEN: what has scrolled off is none of their business
        c(Ed(Some(3))),
        c(Ed(None)),
        c(Ed(Some(1))),
        c(Decaln),
        c(Decstr),
        // lines scrolled off and the screen erased in the SAME call (what scrolled off is still
        // waiting to be handed out when the erase runs)
        c(Seq(vec![Text("p".into()), Cr, Lf, Text("q".into()), Cr, Lf, Text("r".into()), Cr, Lf, Ed(Some(2))])),
        c(Seq(vec![lfs(3), Ed(Some(3)), Decaln])),
        // excursion in one call
        c(Seq(vec![DecSet(vec![1049]), Text("alt".into()), lfs(4), DecRst(vec![1049])])),
        c(Seq(vec![Text("ab".into()), lfs(2), DecSet(vec![47])])),
    ];
    // every chunking hands out the same stream: one feed_str per character
    v.push(t("bcdefgh").kind(Kind::FeedSplit));
    v.push(c(lfs(12)).kind(Kind::FeedSplit));
    v.push(c(Seq(vec![Text("x".into()), Cr, Lf, Text("y".into()), Cr, Lf, Text("z".into()), Cr, Lf])).kind(Kind::FeedSplit));
    v.push(c(Seq(vec![DecSet(vec![1049]), Text("alt".into()), lfs(4), DecRst(vec![1049])])).kind(Kind::FeedSplit));
    v.push(c(lfs(3)).kind(Kind::FeedChars));
    v.push(t("bcdefgh").kind(Kind::FeedChars));
    v.push(c(Seq(vec![DecSet(vec![1049]), lfs(4)])).kind(Kind::FeedChars));
    // leaving the alternate screen through feed() while the primary holds untrimmed rows
    v.push(c(DecRst(vec![1049])).kind(Kind::FeedChars));
    v.push(c(DecRst(vec![1047])).kind(Kind::FeedChars));
    v
}

/// the core of "scrolled off, trimmed, handed out" over a small alphabet, deeper: scrolls of
/// every kind, regions, both ways of leaving for the alternate screen, through feed_str and
/// feed(), with and without a call boundary in between
fn alpha_core(_cfg: &Cfg) -> Vec<Op> {
    vec![
        t("a"),
        c(crlf()),
        c(lfs(3)),
        t("bcdefgh"),
        c(Su(None)),
        c(Seq(vec![Cup(None, None), Dl(Some(1))])),
        c(Decstbm(Some(1), Some(2))),
        c(Decstbm(None, None)),
        c(DecSet(vec![1049])),
        c(DecRst(vec![1049])),
        c(lfs(3)).kind(Kind::FeedChars),
        c(DecSet(vec![1049])).kind(Kind::FeedChars),
        c(DecRst(vec![1049])).kind(Kind::FeedChars),
        c(Seq(vec![lfs(4), DecSet(vec![1049]), Text("x".into()), DecRst(vec![1049]), lfs(4), DecSet(vec![1049])])),
    ]
}

fn core_part(tier: Tier) -> Part<'static, Sys> {
    Part {
        name: "limited-vs-unlimited-core-deep",
        sys: &Sys,
        cfgs: match tier {
            Tier::Quick => cfgs(&[(2, 3)], &[Some(0), Some(2)]),
            Tier::Thorough => cfgs(&[(2, 3), (2, 2)], &[Some(0), Some(1), Some(2), Some(10)]),
        },
        alphabet: &alpha_core,
        depth: tier.pick(6, 8),
        seconds: tier.pick(20.0, 1800.0),
        validated: true,
        nontrivial: Some("calls_handing_out_lines"),
    }
}

const LIMITS: &[Option<usize>] = &[Some(0), Some(1), Some(2), Some(3), Some(10), Some(11)];

macro_rules! parts {
    ($tier:expr) => {{
        let tier: Tier = $tier;
        Part {
            name: "limited-vs-unlimited",
            sys: &Sys,
            cfgs: match tier {
                Tier::Quick => cfgs(&[(2, 2), (2, 3)], &[Some(0), Some(1), Some(2), Some(10), Some(11)]),
                Tier::Thorough => cfgs(&[(2, 2), (3, 2), (2, 3), (1, 2)], LIMITS),
            },
            alphabet: &alpha,
            depth: tier.pick(4, 6),
            seconds: tier.pick(35.0, 2400.0),
            validated: true,
            nontrivial: Some("calls_handing_out_lines"),
        }
    }};
}

/// Every scroll count in ONE call: n numbered lines (n = 0..=N) fed by a single feed_str,
/// then a non-scrolling call, then a short scrolling one - for each limit. The product
/// oracle is applied after every call, TextCollector at the end.
fn count_sweep(ctx: &Ctx, rep: &mut Report) {
    use rayon::prelude::*;
    let nmax = ctx.tier.pick(4200usize, 9000usize);
    let limits: Vec<usize> = match ctx.tier {
        Tier::Quick => vec![0, 1, 10, 100],
        Tier::Thorough => vec![0, 1, 2, 3, 9, 10, 11, 20, 100, 1000],
    };
    let mut cases: Vec<(usize, usize)> = vec![];
    for &l in &limits {
        for n in 0..=nmax {
            cases.push((l, n));
        }
    }
    let bad: Vec<((usize, usize), String)> = cases
        .par_iter()
        .filter_map(|&(l, n)| {
            let cfg = Cfg::new(6, 3, Some(l));
            let body: String = (0..n).map(|i| format!("{}\r\n", i)).collect();
            let ops = [Op::raw(&body), Op::raw("z"), Op::raw("\r\nu\r\nv\r\nw")];
            let r = crate::engine::guarded(|| {
                let mut st = Sys.init(&cfg);
                for (k, op) in ops.iter().enumerate() {
                    let mut out = Out::default();
                    Sys.step(&cfg, &mut st, op, Some(&mut out));
                    if let Some(v) = out.violations.first() {
                        let d: String = v.detail.chars().take(300).collect();
                        return Some(format!("after call {} of [{} numbered lines | z | 3 more lines]: {}: {}", k + 1, n, v.oracle, d));
                    }
                }
                let hist: Vec<&Op> = ops.iter().collect();
                let want = collect_text(None, &cfg, &hist, false);
                let got = collect_text(Some(l), &cfg, &hist, false);
                if got != want {
                    return Some(format!("TextCollector(limit {}) yields {} lines, unlimited {} lines", l, got.len(), want.len()));
                }
                None
            });
            match r {
                Ok(None) => None,
                Ok(Some(d)) => Some(((l, n), d)),
                Err(p) => Some(((l, n), format!("panic: {}", p))),
            }
        })
        .collect();
    let runs = cases.len() as u64;
    rep.evaluations += runs * 3;
    rep.transitions += runs * 3;
    rep.traces_validated += runs;
    rep.distinct_nontrivial += runs;
    rep.parts.push(serde_json::json!({"part":"scroll-count-sweep","config":"6x3","limits":limits,"max_lines_in_one_call":nmax,"runs":runs,"violating":bad.len()}));
    println!("part scroll-count-sweep: {} limits x 0..={} lines in one call, {} violating", limits.len(), nmax, bad.len());
    for ((l, n), d) in bad.iter().take(3) {
        emit_violation(ctx, rep, "C14", serde_json::json!({"part":"scroll-count-sweep","limit":l,"lines":n,"oracle":"stream-plus-lines-equals-unlimited","observed":d}));
    }
    if bad.len() > 3 {
        rep.violations += bad.len() as u64 - 3;
    }
}

pub fn run(ctx: &Ctx) -> Report {
    let mut rep = Report::new();
    let p = parts!(ctx.tier);
    run_part(ctx, &mut rep, &p);
    run_part(ctx, &mut rep, &core_part(ctx.tier));
    count_sweep(ctx, &mut rep);
    rep.rule = "product exploration of (terminal with limit L, unlimited terminal) fed the same op history (no RIS, no resize; alt-screen excursions, scroll regions, DL/IL at the top row, per-char feeds); after every call on the primary screen: lines handed out so far ++ lines() == unlimited lines(), cell-for-cell incl. wrap marks; on the alternate screen nothing may be handed out; at every state TextCollector text is compared across limits and chunkings; non-trivial = calls that hand out at least one line; scroll-count-sweep: for each limit, EVERY count n = 0..=N of numbered lines fed in one call, then a non-scrolling call, then three more lines, same oracle after every call plus TextCollector".into();
    rep.assumptions = vec![
        "the caller drains Changes.scrollback completely (dropping it loses lines by the caller's choice)".into(),
        "alternate-screen status tracked syntactically (no truncated sequences in the alphabet)".into(),
    ];
    rep
}

pub fn replay(ctx: &Ctx, v: &Value) -> bool {
    if v["part"] == "scroll-count-sweep" {
        let mut rep = Report::new();
        let c2 = Ctx { id: ctx.id.clone(), tier: if v["tier"] == "thorough" { Tier::Thorough } else { Tier::Quick }, seed: 0, start: ctx.start, known: ctx.known.clone(), replay_dir: ctx.replay_dir.clone() };
        count_sweep(&c2, &mut rep);
        return rep.violations > 0;
    }
    let tier = if v["tier"] == "thorough" { Tier::Thorough } else { Tier::Quick };
    if v["part"] == "limited-vs-unlimited-core-deep" {
        return replay_part(ctx, &core_part(tier), v);
    }
    let p = parts!(tier);
    replay_part(ctx, &p, v)
}
