//! C12 — the result is independent of how the input stream is chunked.

use crate::engine::guarded;
use crate::obs::{fingerprint, obs, obs_full, Obs};
use crate::ops::{build_vt, esc, Cfg};
use crate::report::*;
use avt::Vt;
use rayon::prelude::*;
use serde_json::{json, Value};
use std::collections::HashMap;
use std::time::Instant;

const TOKENS: &[&str] = &[
    "a",
    "bc",
    "\r\n",
    "\n\n\n",
    "\x1b[2;2H",
    "\x1b[1;31m",
    "\x1b[38;5;200m",
    "\x1b[48:2:1:2:3m",
    "\x1b[0m",
    "\x1b[?1049h",
    "\x1b[?1049l",
    "\x1b[?47h",
    "\x1b[?6h",
    "\x1b[1;2r",
    "\x1b7",
    "\x1b8",
    "\x1bM",
    "\x1b[2J",
    "\x1b[K",
    "\x1b[2b",
    "\x1b]0;t\x07",
    "\x1bPq#1\x1b\\",
    "\x1b(0",
    "q",
    "\x0e",
    "\u{9b}3C",
    "\x1b[4h",
    "\x1b[?7l",
    "\x1bc",
    "\x1b[L",
    "\x1b[M",
    "\x1b[S",
    "\u{e9}\u{6f22}",
    // distinct content in every row, scrolling one or two rows off
    "1\r\n2\r\n3\r\n4",
    // a run of printable ASCII (all in the range the drawing charset remaps)
    "abcdefghij",
    // a parameter beyond 2^32 (2^32 + 31: red foreground when taken modulo 2^16)
    "\x1b[4294967327m",
    // text, then something that captures where the text left the cursor
    "xy\x1b7",
    "xy\x1bH",
];

fn alt_after(tokens: &[usize]) -> bool {
    let mut alt = false;
    for &t in tokens {
        match TOKENS[t] {
            "\x1b[?1049h" | "\x1b[?47h" => alt = true,
            "\x1b[?1049l" | "\x1bc" => alt = false,
            _ => {}
        }
    }
    alt
}

fn rebuild(cfg: &Cfg, chars: &[char], cuts: &[usize]) -> Vt {
    let mut vt = cfg.build();
    let mut prev = 0;
    for &c in cuts {
        let s: String = chars[prev..c].iter().collect();
        let _ = vt.feed_str(&s);
        prev = c;
    }
    vt
}

#[derive(PartialEq, Eq)]
struct Final {
    obs: Obs,
    dump: String,
    full: Option<Obs>,
}

fn final_of(cfg: &Cfg, vt: &Vt) -> Final {
    Final {
        obs: obs(vt),
        dump: vt.dump(),
        full: if cfg.limit.is_none() { Some(obs_full(vt)) } else { None },
    }
}

fn diff(a: &Final, b: &Final) -> String {
    if a.obs != b.obs {
        format!("visible screen/cursor differ: {:?} vs {:?}", a.obs, b.obs)
    } else if a.dump != b.dump {
        format!("dump() (modes) differ: {} vs {}", esc(&a.dump), esc(&b.dump))
    } else {
        format!(
            "lines() differ: {:?} vs {:?}",
            a.full.as_ref().map(|o| &o.rows),
            b.full.as_ref().map(|o| &o.rows)
        )
    }
}

const END_PROBES: usize = 4;
fn end_probe(vt: &mut Vt, k: usize, cfg: &Cfg) {
    match k {
        0 => {
            let _ = vt.feed_str("\x1b[?1049h");
            let _ = vt.resize(cfg.cols, cfg.rows + 2);
            let _ = vt.feed_str("x");
        }
        1 => {
            let _ = vt.feed_str("\x1b[?1049l");
            let _ = vt.resize(cfg.cols + 1, cfg.rows + 2);
            let _ = vt.feed_str("\x1b8y");
        }
        2 => {
            let _ = vt.resize(1, cfg.rows + 1);
            let _ = vt.resize(cfg.cols + 2, cfg.rows);
        }
        _ => {
            let _ = vt.feed_str("\x1b[?47h\x1b8z\x1b[?47l\x1b8w\n\n\n");
        }
    }
}

#[derive(Default)]
struct Stat {
    nodes: u64,
    edges: u64,
    patterns: f64,
    final_nodes: u64,
    kf_hits: u64,
    kf_witness: Option<String>,
    bad: Option<(Vec<usize>, String, String)>, // cuts, kind, detail
}

fn explore(cfg: &Cfg, tokens: &[usize], kf_listed: bool) -> Stat {
    let mut st = Stat::default();
    let s: String = tokens.iter().map(|&t| TOKENS[t]).collect();
    let chars: Vec<char> = s.chars().collect();
    let n = chars.len();
    // nodes[pos]: fingerprint -> (representative cuts ending at pos, number of cut patterns)
    let mut nodes: Vec<HashMap<u128, (Vec<usize>, f64)>> = vec![HashMap::new(); n + 1];
    nodes[0].insert(fingerprint(&cfg.build()), (vec![], 1.0));
    for i in 0..n {
        let here: Vec<(Vec<usize>, f64)> = {
            let mut v: Vec<(u128, (Vec<usize>, f64))> = nodes[i].iter().map(|(k, v)| (*k, v.clone())).collect();
            v.sort_by(|a, b| a.0.cmp(&b.0));
            v.into_iter().map(|x| x.1).collect()
        };
        for (cuts, paths) in here {
            for j in i + 1..=n {
                let mut vt = rebuild(cfg, &chars, &cuts);
                let piece: String = chars[i..j].iter().collect();
                let _ = vt.feed_str(&piece);
                st.edges += 1;
                let fp = fingerprint(&vt);
                let e = nodes[j].entry(fp).or_insert_with(|| {
                    let mut c = cuts.clone();
                    c.push(j);
                    (c, 0.0)
                });
                e.1 += paths;
            }
        }
    }
    for m in &nodes {
        st.nodes += m.len() as u64;
    }
    // reference: one call
    let whole = rebuild(cfg, &chars, &[n]);
    let want = final_of(cfg, &whole);
    let mut finals: Vec<(&u128, &(Vec<usize>, f64))> = nodes[n].iter().collect();
    finals.sort_by(|a, b| a.1 .0.cmp(&b.1 .0));
    for (_, (cuts, paths)) in finals {
        st.final_nodes += 1;
        st.patterns += paths;
        let vt = rebuild(cfg, &chars, cuts);
        let got = final_of(cfg, &vt);
        if got != want && st.bad.is_none() {
            st.bad = Some((cuts.clone(), "feed_str-chunking".into(), diff(&got, &want)));
        }
        // the same screen is not yet the same terminal: where the internal state differs from
        // the single call's, a few continuations that bring parked or pending things to light
        // (the other screen entered and the terminal grown, a restore, a narrowing)
        if got == want && st.bad.is_none() && fingerprint(&vt) != fingerprint(&whole) {
            for k in 0..END_PROBES {
                let mut a = rebuild(cfg, &chars, cuts);
                let mut b = rebuild(cfg, &chars, &[n]);
                end_probe(&mut a, k, cfg);
                end_probe(&mut b, k, cfg);
                let (fa, fb) = (final_of(cfg, &a), final_of(cfg, &b));
                if fa != fb {
                    st.bad = Some((cuts.clone(), "feed_str-chunking".into(), format!("after continuation {}: {}", k, diff(&fa, &fb))));
                    break;
                }
            }
        }
    }
    // the same string inside a LONG call: behind an inert string of 1100 (and, for short
    // token strings, 4200 and 17000) characters in the same feed_str call - whatever a call
    // does differently when its input is long, the result is the short call's
    if st.bad.is_none() && (cfg.limit == Some(0) || (cfg.cols, cfg.rows, cfg.limit) == (2, 2, None)) {
        let sizes: &[usize] = if tokens.len() <= 2 { &[1100, 4200, 17000] } else { &[1100] };
        for &pad in sizes {
            let filler = format!("\x1b]0;{}\x07", "t".repeat(pad));
            for order in 0..2 {
                let mut vt = cfg.build();
                if order == 0 {
                    let _ = vt.feed_str(&format!("{}{}", filler, s));
                } else {
                    let _ = vt.feed_str(&format!("{}{}", s, filler));
                }
                let mut short = rebuild(cfg, &chars, &[n]);
                let _ = short.feed_str(&filler);
                // (compare against the short call followed by the filler in a call of its own:
                // the filler is inert only from the ground state)
                let (got, want2) = (final_of(cfg, &vt), final_of(cfg, &short));
                let comparable = order == 1 || true;
                if comparable && order == 1 && got != want2 {
                    st.bad = Some((vec![], "feed_str-chunking".into(), format!("the string and {} inert characters in ONE call vs in two calls: {}", pad, diff(&got, &want2))));
                }
                if order == 0 && pad >= 4200 {
                    // ... and with the cut INSIDE the inert string: a first call that leaves the
                    // parser in the string, then one long call that ends it and goes on
                    let mut cutin = cfg.build();
                    let _ = cutin.feed_str(&filler[..6]);
                    let _ = cutin.feed_str(&format!("{}{}", &filler[6..], s));
                    let got2 = final_of(cfg, &cutin);
                    if got2 != got {
                        st.bad = Some((vec![], "feed_str-chunking".into(), format!("{} inert characters and the string in ONE call vs cut after 6 characters: {}", pad, diff(&got, &got2))));
                    }
                }
                if order == 0 {
                    let mut two = cfg.build();
                    let _ = two.feed_str(&filler);
                    let _ = two.feed_str(&s);
                    let want3 = final_of(cfg, &two);
                    if got != want3 {
                        st.bad = Some((vec![], "feed_str-chunking".into(), format!("{} inert characters and the string in ONE call vs in two calls: {}", pad, diff(&got, &want3))));
                    }
                }
            }
        }
    }
    // feed() one char at a time
    let mut pc = cfg.build();
    for &ch in &chars {
        pc.feed(ch);
    }
    let got = final_of(cfg, &pc);
    if got != want {
        // known-finding class KF-C12-a: feed()-only run, alternate screen showing,
        // obs and dump equal, only lines above the view differ, and one
        // normalising feed_str("") makes lines() equal.
        let mut is_kf = false;
        if alt_after(tokens) && got.obs == want.obs && got.dump == want.dump {
            let _ = pc.feed_str("");
            let mut w2 = rebuild(cfg, &chars, &[n]);
            let _ = w2.feed_str("");
            if obs_full(&pc) == obs_full(&w2) {
                is_kf = true;
            }
        }
        if is_kf && kf_listed {
            st.kf_hits += 1;
            if st.kf_witness.is_none() {
                st.kf_witness = Some(format!("[{}] {} fed with feed() per char: {}", cfg.name(), esc(&s), diff(&got, &want)));
            }
        } else if st.bad.is_none() {
            st.bad = Some((vec![], "feed-per-char".into(), diff(&got, &want)));
        }
    }
    st
}

/// tokens left out of the quick tier (near-duplicates of others as far as call
/// boundaries are concerned: more text, more SGR forms, the charset trio, an 8-bit CSI)
const QUICK_SKIP: &[&str] = &["bc", "\x1b[1;31m", "\x1b[38;5;200m", "q", "\x0e", "\u{9b}3C", "\u{e9}\u{6f22}"];

fn strings(k: usize, quick: bool) -> Vec<Vec<usize>> {
    let mut out: Vec<Vec<usize>> = vec![];
    let mut level: Vec<Vec<usize>> = vec![vec![]];
    for _ in 0..k {
        let mut next = vec![];
        for s in &level {
            for t in 0..TOKENS.len() {
                if quick && QUICK_SKIP.contains(&TOKENS[t]) {
                    continue;
                }
                let mut x = s.clone();
                x.push(t);
                next.push(x);
            }
        }
        out.extend(next.iter().cloned());
        level = next;
    }
    out
}

fn configs(tier: Tier) -> Vec<Cfg> {
    match tier {
        // (2,3) has a top-anchored region that ends above the last row with the `1;2r` token
        Tier::Quick => vec![
            Cfg::new(2, 2, None),
            Cfg::new(2, 3, Some(0)),
            Cfg::new(1, 2, Some(2)),
            Cfg::new(2, 3, None),
        ],
        Tier::Thorough => crate::ops::cfgs(&[(2, 2), (3, 2), (1, 2), (2, 3)], &[None, Some(0), Some(1), Some(2)]),
    }
}

/// (prefix, suffix): the swept character sits between them, in ground state, inside
/// each kind of control string, and at each stage of an escape / control sequence.
const CONTEXTS: &[(&str, &str)] = &[
    ("ab", "cd"),
    ("\x1b]0;t", "u\x07vw"),
    ("\x1bP1$q", "x\x1b\\yz"),
    ("\x1bX", "q\u{9c}rs"),
    ("\x1b[3", "1mz"),
    ("\x1b[", "2Cz"),
    ("\x1b", "z[1mq"),
    ("\x1b(", "0q"),
    // a string continued by a LONG second call (the character sits where the cut falls)
    ("\x1b]0;tttttttttttttttttttttttt", "uuuuuuuuuuuuuuuuuuuuuuuuuuuuuuuu\x07vw"),
    ("\u{90}1$qpppppppppppppppppppppp", "rrrrrrrrrrrrrrrrrrrrrrrrrrrrrrrr\u{9c}yz"),
];

fn sweep_scalars(tier: Tier) -> Vec<char> {
    (0u32..=0x10FFFF)
        .filter(|&c| match tier {
            Tier::Thorough => true,
            // every scalar below U+3000, the specials at the end of the BMP (variation
            // selectors, BOM, non-characters), the tag / variation-selector plane start,
            // and every 251st of the rest
            Tier::Quick => c < 0x3000 || (0xFE00..=0xFFFF).contains(&c) || (0xE0000..=0xE01FF).contains(&c) || c % 251 == 0,
        })
        .filter_map(char::from_u32)
        .collect()
}

/// Every Unicode scalar at a call boundary: the character is placed in each context and
/// the input is fed whole, cut before it, after it, on both sides, one feed_str per
/// character, and through feed(); all must agree with the single call.
fn scalar_at_cut(ctx: &Ctx, rep: &mut Report) {
    let cfg = Cfg::new(6, 2, None);
    let scalars = sweep_scalars(ctx.tier);
    let t0 = Instant::now();
    let bad: Vec<(char, usize, String)> = scalars
        .par_iter()
        .filter_map(|&ch| {
            for (ci, (pre, suf)) in CONTEXTS.iter().enumerate() {
                let r = guarded(|| {
                    let chars: Vec<char> = pre.chars().chain(std::iter::once(ch)).chain(suf.chars()).collect();
                    let (n, a) = (chars.len(), pre.chars().count());
                    let want = final_of(&cfg, &rebuild(&cfg, &chars, &[n]));
                    let all: Vec<usize> = (1..=n).collect();
                    for cuts in [vec![a, n], vec![a + 1, n], vec![a, a + 1, n], all] {
                        let got = final_of(&cfg, &rebuild(&cfg, &chars, &cuts));
                        if got != want {
                            return Some(format!("cuts {:?}: {}", cuts, diff(&got, &want)));
                        }
                    }
                    let mut pc = cfg.build();
                    for &c in &chars {
                        pc.feed(c);
                    }
                    let got = final_of(&cfg, &pc);
                    if got != want {
                        return Some(format!("feed() per char: {}", diff(&got, &want)));
                    }
                    None
                });
                match r {
                    Ok(None) => {}
                    Ok(Some(d)) => return Some((ch, ci, d)),
                    Err(p) => return Some((ch, ci, format!("panic: {}", p))),
                }
            }
            None
        })
        .collect();
    let runs = scalars.len() as u64 * CONTEXTS.len() as u64 * 6;
    rep.evaluations += runs;
    rep.transitions += runs;
    rep.traces_validated += scalars.len() as u64 * CONTEXTS.len() as u64;
    rep.distinct_nontrivial += scalars.len() as u64;
    rep.parts.push(json!({"part":"scalar-at-cut","config":cfg.name(),"scalars":scalars.len(),"all_scalars":ctx.tier == Tier::Thorough,"contexts":CONTEXTS.len(),"runs":runs,
        "violating_scalars":bad.len(),"wall_s":t0.elapsed().as_secs_f64()}));
    println!("part scalar-at-cut: {} scalars x {} contexts x 6 chunkings, {} violating ({:.1}s)", scalars.len(), CONTEXTS.len(), bad.len(), t0.elapsed().as_secs_f64());
    for (ch, ci, d) in bad.iter().take(3) {
        let (pre, suf) = CONTEXTS[*ci];
        emit_violation(ctx, rep, "C12", json!({"part":"scalar-at-cut","config":cfg_json(&cfg),"scalar":*ch as u32,"context":ci,
            "input":esc(&format!("{}{}{}", pre, ch, suf)),"oracle":"feed_str-chunking","observed":d}));
    }
    if bad.len() > 3 {
        rep.violations += bad.len() as u64 - 3;
    }
}

/// Long inputs: every kind of run (string payloads with each terminator, text, digits,
/// parameters, line feeds, ...) at every length around the powers of two and of ten up to
/// 2^17+ (thorough 2^20+), fed in ONE call, in pieces of 1000 and of 4096 characters,
/// split in the middle, and through feed(): same screen, cursor, dump() and lines().
fn long_runs(ctx: &Ctx, rep: &mut Report) {
    let t0 = Instant::now();
    let max_pow = ctx.tier.pick(17u32, 20);
    let mut lens: Vec<usize> = vec![];
    for k in 6..=max_pow {
        let p = 1usize << k;
        lens.extend([p - 2, p - 1, p, p + 1, p + 2]);
    }
    for k in 2..=6u32 {
        let p = 10usize.pow(k);
        if p <= (1 << max_pow) {
            lens.extend([p - 1, p, p + 1]);
        }
    }
    lens.extend([20000, 50000, 70000]);
    for k in 10..=max_pow.saturating_sub(1) {
        let p = 3usize << k;
        lens.extend([p / 2, p / 4 + 1, p / 10, p / 10 * 4 + 3]);
    }
    lens.sort();
    lens.dedup();
    // (name, prefix, unit repeated to the length, suffix)
    let kinds: &[(&str, &str, &str, &str)] = &[
        ("OSC payload / BEL", "ab\r\n\x1b]1337;", "p", "\x07cd"),
        ("OSC payload / ESC \\", "ab\x1b]0;", "p", "\x1b\\cd"),
        ("8-bit OSC payload / 8-bit ST", "ab\u{9d}0;", "é", "\u{9c}cd"),
        ("DCS payload", "ab\x1bP1;2q", "p", "\x1b\\cd"),
        ("SOS payload", "ab\x1bX", "p", "\u{9c}cd"),
        ("APC payload", "ab\x1b_G", "p", "\x1b\\cd"),
        ("text", "\x1b[2;2H", "t", "\x1b[1mz"),
        ("wide text", "", "漢", "z"),
        ("mixed-width text", "", "aé漢😀", "z"),
        ("mixed-width text after one byte", "q", "é😀a漢", "z"),
        ("CSI digits", "ab\x1b[", "1", "mcd"),
        ("CSI parameters", "ab\x1b[", "1;", "mcd"),
        ("line feeds", "ab", "\n", "cd"),
        ("numbered lines", "", "7\r\n", "cd"),
        ("short sequences", "ab", "\x1b[C\x1b[D", "cd"),
        ("CSI-ignore body", "ab\x1b[?1$$", "0", "hcd"),
    ];
    let cfgs = [Cfg::new(5, 3, None), Cfg::new(5, 3, Some(3))];
    let cases: Vec<(usize, usize, usize)> = (0..kinds.len()).flat_map(|k| lens.iter().flat_map(move |&l| (0..2).map(move |c| (k, l, c)))).collect();
    let bad: Vec<String> = cases
        .par_iter()
        .filter_map(|&(k, l, ci)| {
            let (name, pre, unit, suf) = kinds[k];
            let cfg = cfgs[ci];
            let r = guarded(|| {
                let reps = l / unit.chars().count().max(1);
                let s = format!("{}{}{}", pre, unit.repeat(reps), suf);
                let mut whole = cfg.build();
                let _ = whole.feed_str(&s);
                let want = final_of(&cfg, &whole);
                let chars: Vec<char> = s.chars().collect();
                for piece in [1000usize, 4096, chars.len() / 2 + 1] {
                    let mut vt = cfg.build();
                    for ch in chars.chunks(piece) {
                        let t: String = ch.iter().collect();
                        let _ = vt.feed_str(&t);
                    }
                    let got = final_of(&cfg, &vt);
                    if got != want {
                        return Some(format!("pieces of {} characters: {}", piece, diff(&got, &want)));
                    }
                }
                let mut pc = cfg.build();
                for &c in &chars {
                    pc.feed(c);
                }
                let _ = pc.feed_str("");
                let _ = whole.feed_str("");
                let (got, want) = (final_of(&cfg, &pc), final_of(&cfg, &whole));
                if got.obs != want.obs || got.dump != want.dump {
                    return Some(format!("feed() per character: {}", diff(&got, &want)));
                }
                None
            });
            match r {
                Ok(None) => None,
                Ok(Some(d)) => Some(format!("[{}] {} of length {}: {}", cfg.name(), name, l, if d.len() > 600 { d.chars().take(600).collect::<String>() } else { d })),
                Err(p) => Some(format!("[{}] {} of length {}: panic: {}", cfg.name(), name, l, p)),
            }
        })
        .collect();
    let runs = cases.len() as u64 * 5;
    rep.evaluations += runs;
    rep.transitions += runs;
    rep.traces_validated += cases.len() as u64;
    rep.parts.push(json!({"part":"long-runs","kinds":kinds.len(),"lengths":lens.len(),"max_length":lens.last(),"runs":runs,"violating":bad.len(),"wall_s":t0.elapsed().as_secs_f64()}));
    println!("part long-runs: {} kinds x {} lengths up to {} x 2 configurations x 5 chunkings, {} violating ({:.1}s)", kinds.len(), lens.len(), lens.last().unwrap(), bad.len(), t0.elapsed().as_secs_f64());
    if let Some(d) = bad.first() {
        emit_violation(ctx, rep, "C12", json!({"part":"long-runs","oracle":"feed_str-chunking","observed":d}));
        rep.violations += bad.len() as u64 - 1;
    }
}

pub fn run(ctx: &Ctx) -> Report {
    let mut rep = Report::new();
    crate::engine::install_panic_hook();
    scalar_at_cut(ctx, &mut rep);
    super::stream::run(ctx, &mut rep, "C12", "character-level-strings", "feed_str-chunking", true);
    long_runs(ctx, &mut rep);
    let k = ctx.tier.pick(3, 4);
    let strs3 = strings(3, ctx.tier == Tier::Quick);
    let strs4 = if k == 4 { strings(4, false) } else { vec![] };
    let kf_listed = ctx.known.listed("KF-C12-a", "C12");
    let mut kf_total = 0u64;
    let mut kf_witness: Option<String> = None;
    // thorough: all strings of <= 4 tokens on three configurations, <= 3 tokens on the rest
    let deep_cfgs = [Cfg::new(2, 2, None), Cfg::new(2, 3, Some(0)), Cfg::new(1, 2, Some(2))];
    for cfg in configs(ctx.tier) {
        let strs: &Vec<Vec<usize>> = if k == 4 && deep_cfgs.contains(&cfg) { &strs4 } else { &strs3 };
        let k = if k == 4 && deep_cfgs.contains(&cfg) { 4 } else { 3 };
        let t0 = Instant::now();
        let stats: Vec<(usize, Result<Stat, String>)> = strs
            .par_iter()
            .enumerate()
            .map(|(i, s)| (i, guarded(|| explore(&cfg, s, kf_listed))))
            .collect();
        let (mut nodes, mut edges, mut pats, mut finals, mut nbad) = (0u64, 0u64, 0f64, 0u64, 0u64);
        for (i, r) in stats {
            let toks = &strs[i];
            let text: String = toks.iter().map(|&t| TOKENS[t]).collect();
            match r {
                Ok(st) => {
                    nodes += st.nodes;
                    edges += st.edges;
                    pats += st.patterns;
                    finals += st.final_nodes;
                    kf_total += st.kf_hits;
                    if kf_witness.is_none() {
                        kf_witness = st.kf_witness;
                    }
                    if let Some((cuts, kind, detail)) = st.bad {
                        nbad += 1;
                        if nbad <= 3 {
                            emit_violation(ctx, &mut rep, "C12", json!({"part":"cut-dag","config":cfg_json(&cfg),"tokens":toks,
                                "input":esc(&text),"cuts":cuts,"oracle":kind,"observed":detail}));
                        } else {
                            rep.violations += 1;
                        }
                    }
                }
                Err(m) => {
                    nbad += 1;
                    if nbad <= 3 {
                        emit_violation(ctx, &mut rep, "C12", json!({"part":"cut-dag","config":cfg_json(&cfg),"tokens":toks,
                            "input":esc(&text),"cuts":[],"oracle":"panic","observed":m}));
                    } else {
                        rep.violations += 1;
                    }
                }
            }
        }
        rep.states += nodes;
        rep.transitions += edges;
        rep.evaluations += edges;
        rep.traces_validated += finals + strs.len() as u64;
        rep.distinct_nontrivial += finals;
        rep.parts.push(json!({"part":"cut-dag","config":cfg.name(),"strings":strs.len(),"max_tokens":k,"nodes":nodes,"edges":edges,
            "cut_patterns_represented":pats,"final_nodes_compared":finals,"violating_strings":nbad,"wall_s":t0.elapsed().as_secs_f64()}));
        println!("part cut-dag [{}]: strings {} nodes {} edges {} patterns {:.3e} finals {} violations {} ({:.1}s)",
            cfg.name(), strs.len(), nodes, edges, pats, finals, nbad, t0.elapsed().as_secs_f64());
    }
    if kf_total > 0 {
        emit_known(ctx, &mut rep, "KF-C12-a", kf_total, &kf_witness.unwrap_or_default());
    }
    rep.samples.push(json!({"tokens": TOKENS.iter().map(|t| esc(t)).collect::<Vec<_>>() }));
    rep.samples.push(json!(esc(&strs3[strs3.len() / 2].iter().map(|&t| TOKENS[t]).collect::<String>())));
    rep.rule = "all token strings of <=k tokens over a 37-token alphabet (30 of them in the quick tier) of complete texts/sequences; for each string ALL 2^(n-1) ways of cutting it into feed_str calls are covered by the cut-DAG (node = position x implementation fingerprint after a call boundary; soundness: the future of a call boundary depends only on the state), plus feed() per char; every final node is compared (visible screen, cursor, dump(), and lines() when unlimited) with the single-call result; non-trivial = distinct final nodes compared; plus every Unicode scalar (quick: < U+3000, U+FE00-FFFF, U+E0000-E01FF, every 251st; thorough: all) placed in 8 contexts (ground, OSC, DCS, SOS, CSI parameters, CSI entry, after ESC, charset designation) and fed whole, cut before / after / around it, one call per character and via feed()".into();
    rep.assumptions = vec!["cut-pattern count is the number of paths through the DAG (reported as a float)".into()];
    rep
}

pub fn replay(ctx: &Ctx, v: &Value) -> bool {
    if v["part"] == "long-runs" {
        let mut rep = Report::new();
        let tier = if v["tier"] == "thorough" { Tier::Thorough } else { Tier::Quick };
        let c2 = Ctx { id: ctx.id.clone(), tier, seed: 0, start: ctx.start, known: ctx.known.clone(), replay_dir: ctx.replay_dir.clone() };
        long_runs(&c2, &mut rep);
        return rep.violations > 0;
    }
    if v["part"] == "character-level-strings" {
        return super::stream::replay(v, true);
    }
    if v["part"] == "scalar-at-cut" {
        let mut rep = Report::new();
        let c2 = Ctx { id: ctx.id.clone(), tier: if v["tier"] == "thorough" { Tier::Thorough } else { Tier::Quick }, seed: 0, start: ctx.start, known: ctx.known.clone(), replay_dir: ctx.replay_dir.clone() };
        scalar_at_cut(&c2, &mut rep);
        return rep.violations > 0;
    }
    let cfg = cfg_from(&v["config"]);
    let toks: Vec<usize> = v["tokens"].as_array().unwrap().iter().map(|x| x.as_u64().unwrap() as usize).collect();
    let st = explore(&cfg, &toks, KnownFindings::load().listed("KF-C12-a", "C12"));
    if let Some((cuts, kind, d)) = &st.bad {
        println!("cuts {:?} {}: {}", cuts, kind, d);
    }
    st.bad.is_some()
}
