//! C18 — tab stops: defaults, editing, and correctness across resizes.

use crate::lockstep::LockStep;
use crate::ops::Cmd::*;
use crate::ops::*;
use crate::report::*;
use avt::Vt;
use rayon::prelude::*;
use serde_json::{json, Value};

fn default_stops(w: usize) -> Vec<usize> {
    let mut v = vec![];
    let mut t = 8;
    while t < w {
        v.push(t);
        t += 8;
    }
    v
}

/// Stop list observed through the public API: CR, then HT until the last column.
fn scan_stops(vt: &mut Vt) -> Vec<usize> {
    let cols = vt.size().0;
    let _ = vt.feed_str("\r");
    let mut v = vec![];
    loop {
        let _ = vt.feed_str("\t");
        let c = vt.cursor().col;
        if c >= cols - 1 {
            // the last column is reached either because it is a stop or because there is none
            break;
        }
        v.push(c);
    }
    v
}

fn check_chain(widths: &[usize]) -> Result<(), String> {
    match crate::engine::guarded(|| check_chain_inner(widths)) {
        Ok(r) => r,
        Err(p) => Err(format!("widths {:?}: panic: {}", widths, p)),
    }
}

fn check_chain_inner(widths: &[usize]) -> Result<(), String> {
    // (a width of 0 in the chain stands for a hard reset, ESC c, at the current width:
    // a terminal that was reset is a never-customised terminal again)
    let mut vt = build_vt(widths[0], 2, Some(0));
    for &w in &widths[1..] {
        if w == 0 {
            let _ = vt.feed_str("\x1bc");
        } else {
            let _ = vt.resize(w, 2);
        }
    }
    let last = *widths.last().unwrap();
    let want = default_stops(last);
    let mut hidden = vt.verif_state().tabs;
    hidden.sort();
    if hidden != want {
        return Err(format!("widths {:?}: tab stops {:?}, a fresh {}-column terminal has {:?}", widths, hidden, last, want));
    }
    let seen = scan_stops(&mut vt);
    let want_seen: Vec<usize> = want.iter().copied().filter(|&t| t < last - 1).collect();
    if seen != want_seen {
        return Err(format!("widths {:?}: HT stops at {:?}, expected {:?}", widths, seen, want_seen));
    }
    Ok(())
}

fn width_sweep(ctx: &Ctx, rep: &mut Report) {
    let n1 = ctx.tier.pick(100usize, 200usize);
    let n3 = ctx.tier.pick(26usize, 50usize);
    let mut cases: Vec<Vec<usize>> = vec![];
    for a in 1..=n1 {
        for b in 1..=n1 {
            cases.push(vec![a, b]);
        }
    }
    for a in 1..=n3 {
        for b in 1..=n3 {
            for c in 1..=n3 {
                cases.push(vec![a, b, c]);
            }
        }
    }
    // the same chains with a hard reset in between
    for a in 1..=n1 {
        for b in 1..=n1 {
            if a <= 40 && b <= 40 || (a % 8 <= 1 && b % 8 <= 1) {
                for c in [1usize, 7, 8, 9, 16, 17, 20, 26, 33, 40, 80] {
                    cases.push(vec![a, b, 0, c]);
                    cases.push(vec![a, 0, b, c]);
                }
            }
        }
    }
    let bad: Vec<(Vec<usize>, String)> = cases
        .par_iter()
        .filter_map(|w| check_chain(w).err().map(|e| (w.clone(), e)))
        .collect();
    rep.evaluations += cases.len() as u64;
    rep.transitions += cases.iter().map(|c| c.len() as u64 - 1).sum::<u64>();
    let with_reset = cases.iter().filter(|c| c.contains(&0)).count();
    rep.traces_validated += cases.len() as u64;
    rep.distinct_nontrivial += cases.iter().filter(|c| c.windows(2).any(|w| w[1] > w[0] && w[1] > 8)).count() as u64;
    rep.parts.push(json!({"part":"width-chains","pairs_up_to":n1,"triples_up_to":n3,"chains_with_a_hard_reset":with_reset,"cases":cases.len(),"violating":bad.len()}));
    rep.samples.push(json!({"widths":[80,100]}));
    println!("part width-chains: {} cases, {} violating", cases.len(), bad.len());
    for (w, e) in bad.iter().take(3) {
        emit_violation(ctx, rep, "C18", json!({"part":"width-chains","widths":w,"oracle":"never-customised-tabs-like-fresh","observed":e}));
    }
    if bad.len() > 3 {
        rep.violations += bad.len() as u64 - 3;
    }
}

/// k horizontal tabs in ONE call, k around every power of two up to 2^17 (thorough 2^20):
/// the cursor is on the k-th stop, or in the last column when there are fewer - on a fresh
/// terminal and with a hand-set stop list.
fn ht_runs(ctx: &Ctx, rep: &mut Report) {
    let mut ks: Vec<usize> = vec![0, 1, 2, 3, 9, 10, 11, 100];
    for j in 4..=ctx.tier.pick(17u32, 20) {
        let b = 1usize << j;
        ks.extend([b - 1, b, b + 1, b + 3]);
    }
    let cases: Vec<(usize, usize, bool)> = ks.iter().flat_map(|&k| [20usize, 80, 300].into_iter().flat_map(move |w| [false, true].into_iter().map(move |custom| (k, w, custom)))).collect();
    let bad: Vec<String> = cases
        .par_iter()
        .filter_map(|&(k, w, custom)| {
            let r = crate::engine::guarded(|| {
                let mut vt = build_vt(w, 2, Some(0));
                let mut stops: Vec<usize> = default_stops(w);
                if custom {
                    let _ = vt.feed_str("\x1b[3g\x1b[4G\x1bH\x1b[12G\x1bH\r");
                    stops = vec![3, 11];
                }
                let _ = vt.feed_str(&"\t".repeat(k));
                let want = if k == 0 { 0 } else { stops.get(k - 1).copied().unwrap_or(w - 1).min(w - 1) };
                let got = vt.cursor().col;
                if got != want {
                    return Some(format!("cursor in column {}, expected {}", got, want));
                }
                // and the next character goes where a terminal tabbed step by step puts it
                let _ = vt.feed_str("x");
                let mut s = build_vt(w, 2, Some(0));
                if custom {
                    let _ = s.feed_str("\x1b[3g\x1b[4G\x1bH\x1b[12G\x1bH\r");
                }
                for _ in 0..k.min(60) {
                    let _ = s.feed_str("\t");
                }
                let _ = s.feed_str("x");
                if vt.view() != s.view() || vt.cursor() != s.cursor() {
                    return Some("the character printed after the run is not where step-by-step tabbing puts it".to_string());
                }
                None
            });
            match r {
                Ok(None) => None,
                Ok(Some(d)) => Some(format!("{} HTs in one call on {} columns ({} stops): {}", k, w, if custom { "hand-set" } else { "default" }, d)),
                Err(p) => Some(format!("{} HTs on {} columns: panic: {}", k, w, p)),
            }
        })
        .collect();
    let n = cases.len() as u64;
    rep.evaluations += n;
    rep.traces_validated += n;
    rep.transitions += n;
    rep.parts.push(json!({"part":"ht-runs","counts":ks.len(),"max_count":ks.iter().max(),"cases":n,"violating":bad.len()}));
    println!("part ht-runs: {} cases up to {} tabs in one call, {} violating", n, ks.iter().max().unwrap(), bad.len());
    if let Some(d) = bad.first() {
        emit_violation(ctx, rep, "C18", json!({"part":"ht-runs","oracle":"reference-terminal","observed":d}));
        rep.violations += bad.len() as u64 - 1;
    }
}

/// Stop SETS rather than edit histories: on wide screens, structured families of stop sets
/// (k default stops cleared one by one - every window [i, j) of them; m hand-set stops at
/// consecutive / every-2nd / every-3rd / every-5th columns starting at every offset 1..8,
/// on top of the defaults or after clearing all) are built with HTS / TBC 0, and then the
/// stops are scanned from EVERY column with HT, CHT n and CBT n and compared with a sorted-set
/// model - the terminal is not rebuilt between the scans of one set.
fn stop_sets(ctx: &Ctx, rep: &mut Report) {
    use std::collections::BTreeSet;
    let widths: &[usize] = ctx.tier.pick(&[132usize, 200][..], &[80usize, 132, 200, 300, 520][..]);
    let mut sets: Vec<(usize, String, BTreeSet<usize>)> = vec![];
    for &w in widths {
        let defaults: Vec<usize> = default_stops(w);
        // windows of cleared defaults
        let nd = defaults.len().min(ctx.tier.pick(18, 40));
        for i in 0..nd {
            for j in i + 1..=nd {
                let mut set: BTreeSet<usize> = defaults.iter().cloned().collect();
                let mut setup = String::new();
                for d in &defaults[i..j] {
                    set.remove(d);
                    setup.push_str(&format!("\x1b[{}G\x1b[g", d + 1));
                }
                sets.push((w, setup, set));
            }
        }
        // runs of hand-set stops
        for step in [1usize, 2, 3, 5, 8] {
            for off in 1..=8usize {
                for m in [1usize, 2, 7, 15, 16, 17, 18, 31, 32, 33, 40, 64, 65] {
                    for clear_first in [false, true] {
                        let mut set: BTreeSet<usize> = if clear_first { BTreeSet::new() } else { defaults.iter().cloned().collect() };
                        let mut setup = String::from(if clear_first { "\x1b[3g" } else { "" });
                        for t in 0..m {
                            let col = off + t * step;
                            if col >= w {
                                break;
                            }
                            set.insert(col);
                            setup.push_str(&format!("\x1b[{}G\x1bH", col + 1));
                        }
                        sets.push((w, setup, set));
                    }
                }
            }
        }
    }
    let bad: Vec<String> = sets
        .par_iter()
        .filter_map(|(w, setup, set)| {
            let w = *w;
            let r = crate::engine::guarded(|| {
                let mut vt = build_vt(w, 1, Some(0));
                let _ = vt.feed_str(setup);
                let hidden: Vec<usize> = vt.verif_state().tabs.clone();
                let want: Vec<usize> = set.iter().cloned().filter(|&c| c > 0).collect();
                let got: Vec<usize> = hidden.iter().cloned().filter(|&c| c > 0 && c < w).collect();
                if got != want {
                    return Some(format!("{} columns after {}: stops {:?}, expected {:?}", w, esc(setup), got, want));
                }
                for col in 0..w {
                    for (cmd, n, fwd) in [("\t", 1usize, true), ("\x1b[I", 1, true), ("\x1b[2I", 2, true), ("\x1b[5I", 5, true), ("\x1b[17I", 17, true), ("\x1b[Z", 1, false), ("\x1b[2Z", 2, false), ("\x1b[6Z", 6, false), ("\x1b[18Z", 18, false)] {
                        let _ = vt.feed_str(&format!("\x1b[{}G{}", col + 1, cmd));
                        let at = vt.cursor().col;
                        let exp = if fwd { set.range(col + 1..w).nth(n - 1).cloned().unwrap_or(w - 1) } else { set.range(..col).rev().nth(n - 1).cloned().unwrap_or(0) };
                        if at != exp {
                            return Some(format!("{} columns after {}: {} from column {} ends at {}, the {}. stop {} is at {}", w, esc(setup), esc(cmd), col, at, n, if fwd { "to the right" } else { "to the left" }, exp));
                        }
                    }
                }
                None
            });
            match r {
                Ok(x) => x,
                Err(p) => Some(format!("{} columns after {}: panic: {}", w, esc(setup), p)),
            }
        })
        .collect();
    let moves: u64 = sets.iter().map(|(w, _, _)| *w as u64 * 9).sum();
    rep.evaluations += moves;
    rep.transitions += moves;
    rep.traces_validated += sets.len() as u64;
    rep.distinct_nontrivial += sets.len() as u64;
    rep.parts.push(json!({"part":"stop-sets-on-wide-screens","widths":widths,"stop_sets":sets.len(),"moves_checked":moves,"violating":bad.len()}));
    println!("part stop-sets-on-wide-screens: {} stop sets on widths {:?}, {} tab moves checked, {} violating", sets.len(), widths, moves, bad.len());
    if let Some(d) = bad.first() {
        emit_violation(ctx, rep, "C18", json!({"part":"stop-sets-on-wide-screens","oracle":"tab-stops","observed":d}));
        rep.violations += bad.len() as u64 - 1;
    }
}

fn alpha(cfg: &Cfg) -> Vec<Op> {
    let cols = cfg.cols as u32;
    let mut v: Vec<Op> = vec![];
    let mut colset: Vec<u32> = vec![1, 2, 8, 9, 10, 16, 17, cols.saturating_sub(1).max(1), cols];
    colset.retain(|&c| c <= cols);
    colset.sort();
    colset.dedup();
    for cc in colset {
        v.push(c(Cha(Some(cc))));
    }
    v.push(c(Hts));
    v.push(c8(Hts));
    v.push(c(Ctc(None)));
    v.push(c(Ctc(Some(2))));
    v.push(c(Ctc(Some(5))));
    v.push(c(Tbc(None)));
    v.push(c(Tbc(Some(3))));
    v.push(c(Ht));
    for n in [None, Some(1), Some(2), Some(9)] {
        v.push(c(Cht(n)));
        v.push(c(Cbt(n)));
    }
    v.push(Op::text(&"w".repeat(cfg.cols)));
    // tab stops are shared by both screens: a switch (and a resize in between) must not touch them
    v.push(c(DecSet(vec![1047])));
    v.push(c(DecRst(vec![1047])));
    for w in [1usize, 8, 9, 16, 17, 24, 25] {
        if w != cfg.cols {
            v.push(Op::resize(w, cfg.rows));
        }
    }
    v
}

macro_rules! parts {
    ($tier:expr, $sys:expr) => {{
        let tier: Tier = $tier;
        Part {
            name: "tabs-lockstep",
            sys: $sys,
            cfgs: match tier {
                Tier::Quick => cfgs(&[(2, 1), (8, 1), (9, 1), (17, 1), (20, 1)], &[Some(0)]),
                Tier::Thorough => cfgs(&[(1, 1), (2, 1), (8, 1), (9, 1), (16, 1), (17, 1), (20, 2)], &[Some(0)]),
            },
            alphabet: &alpha,
            depth: tier.pick(5, 6),
            seconds: tier.pick(35.0, 2400.0),
            validated: true,
            nontrivial: Some("lockstep_transitions"),
        }
    }};
}

static SYS: LockStep = LockStep { property: "C18", probes: true, seed: None, via_feed: false, merged: false };

pub fn run(ctx: &Ctx) -> Report {
    let mut rep = Report::new();
    width_sweep(ctx, &mut rep);
    ht_runs(ctx, &mut rep);
    stop_sets(ctx, &mut rep);
    let p = parts!(ctx.tier, &SYS);
    run_part(ctx, &mut rep, &p);
    rep.rule = "(a) every pair of widths and every triple of small widths: build at the first width, resize along the chain, the tab stops (hook and HT scan) must be those of a fresh terminal of the final width; (b) lock-step BFS of (real Vt, reference terminal with a BTreeSet of stops) over CHA to boundary columns, HTS/CTC/TBC, HT/CHT/CBT with counts, text to the wrap-pending column, resizes to 7 widths; hidden tab stops compared after every transition".into();
    rep.assumptions = vec!["a stop in column 0 is unobservable and not modelled; tab set/clear from the wrap-pending column is unspecified (pruned)".into()];
    rep
}

pub fn replay(ctx: &Ctx, v: &Value) -> bool {
    if v["part"] == "stop-sets-on-wide-screens" {
        let mut rep = Report::new();
        stop_sets(ctx, &mut rep);
        return rep.violations > 0;
    }
    if v["part"] == "ht-runs" {
        let mut rep = Report::new();
        ht_runs(ctx, &mut rep);
        return rep.violations > 0;
    }
    if v["part"] == "width-chains" {
        let w: Vec<usize> = v["widths"].as_array().unwrap().iter().map(|x| x.as_u64().unwrap() as usize).collect();
        let r = check_chain(&w);
        println!("{:?}", r);
        return r.is_err();
    }
    let tier = if v["tier"] == "thorough" { Tier::Thorough } else { Tier::Quick };
    let p = parts!(tier, &SYS);
    replay_part(ctx, &p, v)
}
