//! C11 — dump() reproduces the terminal for all future input.

use crate::alphabets::*;
use crate::engine::{Out, System};
use crate::obs::{fingerprint, obs, Obs};
use crate::ops::Cmd::*;
use crate::ops::*;
use crate::probes::{battery, leaves_alt};
use crate::report::*;
use avt::Vt;
use serde_json::Value;

pub struct Sys {
    pub kf_a: bool,
    pub kf_b: bool,
    pub kf_c: bool,
}

pub struct St {
    pub vt: Vt,
    pub alt: bool,
    pub alt_entry_size: (usize, usize),
}

/// Syntactic alt-screen ghost on raw text: every op that enters or leaves the
/// alternate screen starts with ESC, which is recognised in every parser state.
fn ghost_text(st: &mut St, text: &str) {
    let size = st.vt.size();
    let mut rest = text;
    while let Some(i) = rest.find('\x1b') {
        rest = &rest[i..];
        let enter = ["\x1b[?47h", "\x1b[?1047h", "\x1b[?1049h"];
        let leave = ["\x1b[?47l", "\x1b[?1047l", "\x1b[?1049l", "\x1bc"];
        if enter.iter().any(|p| rest.starts_with(p)) {
            if !st.alt {
                st.alt = true;
                st.alt_entry_size = size;
            }
        } else if leave.iter().any(|p| rest.starts_with(p)) {
            st.alt = false;
        }
        rest = &rest[1..];
    }
}

/// Black-box measurements on copies of a state.
struct Measure {
    row: usize,
    top: usize,
    bottom: usize,
    origin: bool,
    awm: bool,
    saved_row: usize,
    saved_origin: bool,
    saved_awm: bool,
}

fn cur_after(rebuild: &dyn Fn() -> St, s: &str) -> (usize, usize) {
    let mut c = rebuild();
    let _ = c.vt.feed_str(s);
    let k = c.vt.cursor();
    (k.col, k.row)
}

fn measure(st: &St, rebuild: &dyn Fn() -> St) -> Measure {
    let (cols, rows) = st.vt.size();
    let row = st.vt.cursor().row;
    let bottom = cur_after(rebuild, "\x18\x1b[?6l\x1b[1;1H\x1b[999B").1;
    let top = cur_after(rebuild, "\x18\x1b[?6l\x1b[999;1H\x1b[999A").1;
    let origin_of = |prefix: &str| -> bool {
        let lo = cur_after(rebuild, &format!("{}\x1b[1;1H", prefix)).1;
        let hi = cur_after(rebuild, &format!("{}\x1b[999;1H", prefix)).1;
        (top > 0 && lo == top) || (bottom < rows - 1 && hi == bottom)
    };
    let awm_of = |prefix: &str| -> bool {
        cur_after(rebuild, &format!("{}\x1b[999Cx", prefix)).0 == cols
    };
    Measure {
        row,
        top,
        bottom,
        origin: origin_of("\x18"),
        awm: awm_of("\x18"),
        saved_row: cur_after(rebuild, "\x18\x1b8").1,
        saved_origin: origin_of("\x18\x1b8"),
        saved_awm: awm_of("\x18\x1b8"),
    }
}

impl Sys {
    fn judge(&self, cfg: &Cfg, st: &St, rebuild: &dyn Fn() -> St, conts: &[&str], out: &mut Out) {
        let size = st.vt.size();
        let d = st.vt.dump();
        let mk_r = || {
            let mut r = build_vt(size.0, size.1, cfg.limit);
            let _ = r.feed_str(&d);
            r
        };
        // (label, leaves alt, original obs, restored obs)
        let mut mism: Vec<(String, bool, Obs, Obs)> = vec![];
        {
            let a = obs(&st.vt);
            let b = obs(&mk_r());
            out.count("comparisons");
            if a != b {
                mism.push(("immediately after restore".into(), false, a, b));
            }
        }
        let probes = battery(size.0, size.1);
        for p in probes.iter().map(|s| s.as_str()).chain(conts.iter().copied()) {
            let mut s2 = rebuild();
            let _ = s2.vt.feed_str(p);
            let mut r2 = mk_r();
            let _ = r2.feed_str(p);
            let a = obs(&s2.vt);
            let b = obs(&r2);
            out.count("comparisons");
            if a != b {
                mism.push((format!("after {}", esc(p)), leaves_alt(p), a, b));
                if mism.len() >= 8 {
                    break;
                }
            }
        }
        if mism.is_empty() {
            return;
        }
        out.count("failing_states");
        // classification (black-box on the original state)
        let m = measure(st, rebuild);
        let outside = m.origin && (m.row < m.top || m.row > m.bottom);
        let class_a = outside && (!m.saved_origin || (!m.saved_awm && m.awm));
        let class_b = outside
            && !class_a
            && ((m.row < m.top && m.top <= m.saved_row) || (m.saved_row <= m.bottom && m.bottom < m.row));
        let class_c = st.alt && st.alt_entry_size != size;
        if class_a && self.kf_a {
            out.known(
                "KF-C11-a",
                format!("origin on, cursor row {} outside region {}..{}, saved ctx origin {} awm {} (current awm {}): {}",
                    m.row, m.top, m.bottom, m.saved_origin, m.saved_awm, m.awm, mism[0].0),
            );
            return;
        }
        if class_b && self.kf_b {
            out.known(
                "KF-C11-b",
                format!("origin on, cursor row {} outside region {}..{}, saved row {} beyond the margin: {}",
                    m.row, m.top, m.bottom, m.saved_row, mism[0].0),
            );
            return;
        }
        let mut excused = 0;
        for (label, leaves, a, b) in &mism {
            if class_c && self.kf_c && *leaves {
                excused += 1;
                continue;
            }
            out.violate(
                "C11",
                "dump-roundtrip",
                format!(
                    "{}: original {:?} cursor {:?} ckm {} / restored {:?} cursor {:?} ckm {}; dump = {}",
                    label, a.rows, a.cursor, a.ckm, b.rows, b.cursor, b.ckm, esc(&d)
                ),
            );
            return;
        }
        if excused > 0 {
            out.known(
                "KF-C11-c",
                format!("alternate screen showing, size {:?} != size at entry {:?}: {}", size, st.alt_entry_size, mism[0].0),
            );
        }
    }
}

pub struct SysA<'a> {
    pub sys: Sys,
    pub conts: &'a (dyn Fn(&Cfg) -> Vec<String> + Sync),
}

impl<'a> System for SysA<'a> {
    type St = St;
    fn init(&self, cfg: &Cfg) -> St {
        St {
            vt: cfg.build(),
            alt: false,
            alt_entry_size: (cfg.cols, cfg.rows),
        }
    }
    fn step(&self, _cfg: &Cfg, st: &mut St, op: &Op, out: Option<&mut Out>) {
        let _ = apply(&mut st.vt, op);
        // dump() is read after every step of every history (and thrown away): what it says at
        // the state under test must not depend on having been asked before
        let _ = st.vt.dump();
        ghost_text(st, &op.text);
        if let Some(out) = out {
            out.obs_hash = Some(crate::obs::hash_obs(&obs(&st.vt)));
        }
    }
    fn key(&self, st: &St) -> u128 {
        // the ghost is a function of the implementation state and the entry
        // size; include the entry size so class-c bookkeeping is exact
        crate::obs::fp_combine(
            fingerprint(&st.vt),
            ((st.alt as u128) << 64) | ((st.alt_entry_size.0 as u128) << 32) | st.alt_entry_size.1 as u128,
        )
    }
    fn on_state(&self, cfg: &Cfg, _h: &[&Op], st: &mut St, rebuild: &dyn Fn() -> St, out: &mut Out) {
        let conts = (self.conts)(cfg);
        let cr: Vec<&str> = conts.iter().map(|s| s.as_str()).collect();
        out.count("states_round_tripped");
        self.sys.judge(cfg, st, rebuild, &cr, out);
    }
}

pub fn a_11(cfg: &Cfg) -> Vec<Op> {
    let rows = cfg.rows as u32;
    let mut v = vec![
        t("a"),
        t("bcd"),
        t("漢\u{301}"),
        c(crlf()),
        c(Ri),
        c(Decstbm(Some(1), Some(rows.saturating_sub(1).max(1)))),
        c(Decstbm(Some(2), Some(rows))),
        c(Decstbm(None, None)),
        c(DecSet(vec![6])),
        c(DecRst(vec![6])),
        c(DecRst(vec![7])),
        c(DecSet(vec![7])),
        c(Sm(vec![4])),
        c(Rm(vec![4])),
        c(Sm(vec![20])),
        c(DecSet(vec![1])),
        c(DecRst(vec![25])),
        c(Decsc),
        c(Decrc),
        c(DecSet(vec![47])),
        c(DecRst(vec![47])),
        c(DecSet(vec![1049])),
        c(DecRst(vec![1049])),
        c(DecSet(vec![1047])),
        c(Cup(None, None)),
        c(Cup(Some(99), Some(99))),
        c(Cup(Some(2), Some(2))),
        c(Cuu(None)),
        c(Cud(None)),
        c(Cuf(None)),
        c(Il(None)),
        c(Dl(None)),
        c(Su(None)),
        c(Ich(None)),
        c(Dch(None)),
        c(El(None)),
        c(Ed(Some(1))),
        c(sgr1(41)),
        c(sgr1(1)),
        c(Sgr(vec![vec![Some(38), Some(5), Some(200)]])),
        c(sgr1(0)),
        c(Decaln),
        c(Ris),
        c(Decstr),
        c(Ht),
        c(Hts),
        c(Tbc(Some(3))),
        c(Desig(0, true)),
        c(Desig(1, true)),
        c(So),
        c(Bs),
    ];
    v.extend(truncations());
    v.extend(resizes(&[(2, 2), (3, 3), (1, 1), (4, 2), (2, 3)]));
    v
}

/// origin / margins / save / alt / resize sub-alphabet for deep runs
pub fn a_11_deep(cfg: &Cfg) -> Vec<Op> {
    let rows = cfg.rows as u32;
    let mut v = vec![
        t("a"),
        c(crlf()),
        c(Decstbm(Some(2), Some(rows))),
        c(Decstbm(Some(1), Some(rows.saturating_sub(1).max(1)))),
        c(Decstbm(None, None)),
        c(DecSet(vec![6])),
        c(DecRst(vec![6])),
        c(DecRst(vec![7])),
        c(Decsc),
        c(Decrc),
        c(DecSet(vec![1049])),
        c(DecRst(vec![1049])),
        c(DecSet(vec![1047])),
        c(DecRst(vec![1047])),
        c(Cup(Some(99), Some(99))),
        c(Cup(None, None)),
        c(Cuu(None)),
        c(sgr1(41)),
        c(Decaln),
    ];
    v.extend(resizes(&[(2, 2), (3, 3), (2, 3)]));
    v
}

/// screen layouts on a tall narrow screen: rows that are full and soft-wrapped with an
/// emptied continuation, stretches of blank rows, content far down, coloured blanks -
/// what the dump's row encoding (trailing-blank cut-off, REP, row skipping) has to get right
pub fn a_layout(cfg: &Cfg) -> Vec<Op> {
    let rows = cfg.rows as u32;
    let over: String = "abcdefghijklmnopqrstuvwxyz".chars().take(cfg.cols + 1).collect();
    let mut v = vec![
        Op::text(&over),
        // a full soft-wrapped row whose continuation was emptied again
        c(Seq(vec![Text(over.clone()), Bs, El(None)])),
        t("a"),
        t("  "),
        c(crlf()),
        c(El(None)),
        c(Ech(Some(2))),
        c(sgr1(41)),
        c(sgr1(0)),
        c(Cup(Some(99), Some(99))),
        c(Il(None)),
    ];
    for r in [1, 2, 3, rows / 2 + 1, rows - 1, rows] {
        v.push(c(Cup(Some(r), Some(1))));
    }
    v
}

fn conts_layout(cfg: &Cfg) -> Vec<String> {
    a_layout(cfg).into_iter().map(|o| o.text).collect()
}

fn layout_part<'a>(tier: Tier, sys: &'a SysA<'a>) -> Part<'a, SysA<'a>> {
    Part {
        name: "sparse-tall-screen",
        sys,
        cfgs: match tier {
            Tier::Quick => cfgs(&[(3, 9)], &[None]),
            Tier::Thorough => cfgs(&[(3, 9), (8, 10), (2, 12)], &[None]),
        },
        alphabet: &a_layout,
        depth: tier.pick(5, 6),
        seconds: tier.pick(20.0, 2400.0),
        validated: true,
        nontrivial: Some("states_round_tripped"),
    }
}

/// layouts on screens wide enough for the dump's run-length and blank-skipping encodings
/// (REP break-even, runs that reach one or two default tab stops): soft-wrapped rows above
/// coloured bars, text after long blank stretches, on either screen, with default, cleared
/// and hand-set tab stops
pub fn a_wide_layout(cfg: &Cfg) -> Vec<Op> {
    let cols = cfg.cols as u32;
    let over: String = "abcdefghijklmnopqrstuvwxyz".chars().cycle().take(cfg.cols + 1).collect();
    vec![
        Op::text(&over),
        t("ab"),
        c(crlf()),
        c(sgr1(44)),
        c(sgr1(0)),
        c(El(Some(2))),
        c(El(None)),
        c(Cup(Some(2), Some(1))),
        c(Cup(Some(2), Some(cols - 1))),
        c(Cha(Some(cols - 3))),
        c(Tbc(Some(3))),
        c(Seq(vec![Cha(Some(4)), Hts])),
        c(DecSet(vec![1047])),
        c(DecRst(vec![1047])),
        c(Ht),
        c(Tbc(None)),
        c(Hts),
    ]
}

fn conts_wide_layout(cfg: &Cfg) -> Vec<String> {
    a_wide_layout(cfg).into_iter().map(|o| o.text).collect()
}

fn wide_layout_part<'a>(tier: Tier, sys: &'a SysA<'a>) -> Part<'a, SysA<'a>> {
    Part {
        name: "wide-screen-layouts",
        sys,
        cfgs: match tier {
            Tier::Quick => cfgs(&[(7, 3), (20, 2)], &[None]),
            Tier::Thorough => cfgs(&[(7, 3), (20, 2), (26, 3), (10, 4)], &[None]),
        },
        alphabet: &a_wide_layout,
        depth: tier.pick(4, 5),
        seconds: tier.pick(20.0, 2400.0),
        validated: true,
        nontrivial: Some("states_round_tripped"),
    }
}

/// the core of what the dump has to re-create in the right ORDER (pen, saved pen, origin mode,
/// margins, a cursor parked outside the region by a restore) over a small alphabet, deeper
pub fn a_pen_origin_core(cfg: &Cfg) -> Vec<Op> {
    let rows = cfg.rows as u32;
    vec![
        c(sgr1(41)),
        c(sgr1(0)),
        c(DecSet(vec![6])),
        c(Decsc),
        c(Decrc),
        c(Decstbm(Some(2), Some(rows))),
        c(Decstbm(Some(1), Some(rows - 1))),
        c(Cup(None, None)),
        t("a"),
        c(DecSet(vec![1049])),
    ]
}

fn conts_pen_origin_core(cfg: &Cfg) -> Vec<String> {
    a_pen_origin_core(cfg).into_iter().map(|o| o.text).collect()
}

fn pen_origin_core_part<'a>(tier: Tier, sys: &'a SysA<'a>) -> Part<'a, SysA<'a>> {
    Part {
        name: "pen-origin-save-core-deep",
        sys,
        cfgs: cfgs(&[(2, 3)], &[None]),
        alphabet: &a_pen_origin_core,
        depth: tier.pick(6, 8),
        seconds: tier.pick(20.0, 2400.0),
        validated: true,
        nontrivial: Some("states_round_tripped"),
    }
}

fn conts_full(cfg: &Cfg) -> Vec<String> {
    a_11(cfg).into_iter().filter(|o| !o.is_resize()).map(|o| o.text).collect()
}
fn conts_deep(cfg: &Cfg) -> Vec<String> {
    a_11_deep(cfg).into_iter().filter(|o| !o.is_resize()).map(|o| o.text).collect()
}

macro_rules! parts {
    ($tier:expr, $sa:expr, $sb:expr) => {{
        let tier: Tier = $tier;
        let full = Part {
            name: "full-alphabet",
            sys: $sa,
            cfgs: match tier {
                Tier::Quick => {
                    let mut v = cfgs(&[(3, 3), (2, 2), (1, 1)], &[None, Some(0)]);
                    v.push(Cfg::new(8, 2, None)); // wide enough for the REP compression of dump()
                    v
                }
                Tier::Thorough => cfgs(&[(3, 3), (2, 2), (4, 3), (9, 2), (1, 1)], &[None, Some(0), Some(1)]),
            },
            alphabet: &a_11,
            depth: tier.pick(3, 4),
            seconds: tier.pick(25.0, 2400.0),
            validated: true,
            nontrivial: Some("states_round_tripped"),
        };
        let deep = Part {
            name: "origin-margins-save-alt-resize",
            sys: $sb,
            cfgs: match tier {
                Tier::Quick => cfgs(&[(3, 3), (2, 2)], &[None]),
                Tier::Thorough => cfgs(&[(3, 3), (2, 2), (4, 3)], &[None, Some(0)]),
            },
            alphabet: &a_11_deep,
            depth: tier.pick(5, 7),
            seconds: tier.pick(25.0, 2400.0),
            validated: true,
            nontrivial: Some("states_round_tripped"),
        };
        (full, deep)
    }};
}

fn make(ctx_known: &KnownFindings) -> Sys {
    Sys {
        kf_a: ctx_known.listed("KF-C11-a", "C11"),
        kf_b: ctx_known.listed("KF-C11-b", "C11"),
        kf_c: ctx_known.listed("KF-C11-c", "C11"),
    }
}

/// Every pen encoding through the dump: all 256 indices x fg/bg, RGB corners,
/// every attribute, placed in a cell, in the current pen and in a saved context.
fn pen_encodings(ctx: &Ctx, rep: &mut Report) {
    let mut sgrs: Vec<String> = vec![];
    for i in 0..=255u32 {
        sgrs.push(format!("38;5;{}", i));
        sgrs.push(format!("48;5;{}", i));
    }
    for code in (30..=37).chain(40..=47).chain(90..=97).chain(100..=107) {
        sgrs.push(code.to_string());
    }
    for (r, g, b) in [(0, 0, 0), (1, 2, 3), (255, 255, 255), (16, 16, 16), (255, 0, 128)] {
        sgrs.push(format!("38;2;{};{};{}", r, g, b));
        sgrs.push(format!("48;2;{};{};{}", r, g, b));
    }
    for a in [1, 2, 3, 4, 5, 7, 9] {
        sgrs.push(a.to_string());
    }
    sgrs.push("1;3;4;5;7;9;38;5;16;48;5;231".into());
    sgrs.push("2;3;4;5;7;9;97;100".into());
    let placements: [&dyn Fn(&str) -> String; 4] = [
        &|s| format!("\x1b[{}mab\x1b[0m", s),          // in cells
        &|s| format!("ab\x1b[{}m", s),                  // current pen
        &|s| format!("\x1b[{}m\x1b7\x1b[0mab", s),      // saved context (primary)
        &|s| format!("\x1b[?1047h\x1b[{}m\x1b7x\x1b[?1047l", s), // saved context (alternate)
    ];
    let mut n = 0u64;
    let probes = battery(3, 2);
    for s in &sgrs {
        for (pi, pl) in placements.iter().enumerate() {
            let input = pl(s);
            let d = match crate::engine::guarded(|| {
                let mut vt = build_vt(3, 2, None);
                let _ = vt.feed_str(&input);
                vt.dump()
            }) {
                Ok(d) => d,
                Err(p) => {
                    emit_violation(ctx, rep, "C11", serde_json::json!({"part":"pen-encodings","input":esc(&input),"input_raw":input,"probe":"","probe_raw":"","placement":pi,
                        "oracle":"panic","observed":p}));
                    return;
                }
            };
            for p in std::iter::once("").chain(probes.iter().map(|x| x.as_str())) {
                let pair = crate::engine::guarded(|| {
                    let mut a = build_vt(3, 2, None);
                    let _ = a.feed_str(&input);
                    let _ = a.feed_str(p);
                    let mut b = build_vt(3, 2, None);
                    let _ = b.feed_str(&d);
                    let _ = b.feed_str(p);
                    (a, b)
                });
                let (a, b) = match pair {
                    Ok(x) => x,
                    Err(pm) => {
                        emit_violation(ctx, rep, "C11", serde_json::json!({"part":"pen-encodings","input":esc(&input),"input_raw":input,"probe":esc(p),"probe_raw":p,"placement":pi,
                            "oracle":"panic","observed":pm}));
                        return;
                    }
                };
                n += 1;
                if obs(&a) != obs(&b) {
                    emit_violation(ctx, rep, "C11", serde_json::json!({"part":"pen-encodings","input":esc(&input),"input_raw":input,"probe":esc(p),"probe_raw":p,"placement":pi,
                        "oracle":"dump-roundtrip-pen","observed":format!("original {:?} / restored {:?}; dump = {}", obs(&a).rows, obs(&b).rows, esc(&d))}));
                    return;
                }
            }
        }
    }
    rep.evaluations += n;
    rep.traces_validated += n;
    rep.parts.push(serde_json::json!({"part":"pen-encodings","sgr_forms":sgrs.len(),"placements":4,"comparisons":n}));
    println!("part pen-encodings: {} comparisons", n);
}

/// "... including when the original input was cut in the middle of an escape sequence, whose
/// remainder is then completed correctly on both": EVERY cut position of a set of long and
/// awkward sequences (parameter counts around the table size, sub-parameters, markers,
/// intermediates, control strings with headers, 8-bit forms). The part before the cut goes
/// to the original, its dump to a fresh terminal, the remainder plus visible text to both.
fn cut_sweep(ctx: &Ctx, rep: &mut Report) {
    let mut seqs: Vec<String> = vec![];
    for n in [1usize, 2, 16, 31, 32, 33, 34, 40] {
        // n parameters, the last but one bold, the last underline: dropping, folding or
        // shifting any of them changes the pen of the text that follows
        let mut ps: Vec<String> = vec!["0".to_string(); n.saturating_sub(2)];
        ps.push("1".into());
        ps.push("4".into());
        let ps = &ps[ps.len() - n.min(ps.len())..];
        seqs.push(format!("\x1b[{}m", ps.join(";")));
        seqs.push(format!("{}{}m", '\u{9b}', ps.join(";")));
        seqs.push(format!("\x1bP{}q#1\x1b\\", ps.join(";")));
    }
    for s in [
        "\x1b[38:2::10:20:30;48:5:7m",
        "\x1b[38;2;10;20;30;48;5;7m",
        "\x1b[2;3H",
        "\x1b[?6;7l",
        "\x1b[?1049h",
        "\x1b[!p",
        "\x1b[1 q",
        "\x1b[12345;2H",
        "\x1b[1:2:3:4:5:6:7;2H",
        "\x1b(0",
        "\x1b)0\x0e",
        "\x1b#8",
        "\x1b]0;title\x07",
        "\x1b]8;;http://x\x1b\\",
        "\u{9d}0;t\u{9c}",
        "\x1bP1$r0m\x1b\\",
        "\u{90}1;2|ab\u{9c}",
        "\x1bXsos\x1b\\",
        "\x1b_apc\u{9c}",
        "\x1b^pm\x1b\\",
        "\x1b[3;4r",
        "\x1b[2b",
    ] {
        seqs.push(s.to_string());
    }
    // every number of colon-separated parts 1..=10 in a parameter that selects a colour (the
    // table has six places per parameter), before and after another parameter
    for g in ["38", "48"] {
        for parts in 1..=10usize {
            for sel in ["2", "5"] {
                let mut v: Vec<String> = vec![g.to_string(), sel.to_string()];
                for i in 0..parts.saturating_sub(2) {
                    v.push(if sel == "2" && i == 0 { String::new() } else { format!("{}", 10 * (i + 1) % 256) });
                }
                v.truncate(parts.max(1));
                seqs.push(format!("\x1b[{}m", v.join(":")));
                seqs.push(format!("\x1b[1;{};4m", v.join(":")));
            }
        }
    }
    seqs.sort();
    seqs.dedup();
    let prefixes = ["", "ab\r\n\x1b[1;31mc", "\x1b[?1049hq"];
    let (cols, rows) = (6usize, 3usize);
    let mut n = 0u64;
    let mut bad: Option<(String, usize, String, String)> = None;
    'outer: for s in &seqs {
        let chars: Vec<char> = s.chars().collect();
        for k in 1..chars.len() {
            for pre in prefixes {
                let head: String = format!("{}{}", pre, chars[..k].iter().collect::<String>());
                let tail: String = format!("{}Zq", chars[k..].iter().collect::<String>());
                let r = crate::engine::guarded(|| {
                    let mut a = build_vt(cols, rows, None);
                    let _ = a.feed_str(&head);
                    let d = a.dump();
                    let mut b = build_vt(cols, rows, None);
                    let _ = b.feed_str(&d);
                    if obs(&a) != obs(&b) {
                        return Some(format!("restored differs at once: original {:?} / restored {:?}; dump = {}", obs(&a).rows, obs(&b).rows, esc(&d)));
                    }
                    let _ = a.feed_str(&tail);
                    let _ = b.feed_str(&tail);
                    if obs(&a) != obs(&b) {
                        return Some(format!(
                            "after the remainder {}: original {:?} cursor {:?} / restored {:?} cursor {:?}; dump = {}",
                            esc(&tail),
                            obs(&a).rows,
                            obs(&a).cursor,
                            obs(&b).rows,
                            obs(&b).cursor,
                            esc(&d)
                        ));
                    }
                    if a.dump() != b.dump() {
                        return Some(format!("after the remainder {} the two dumps differ: {} / {}", esc(&tail), esc(&a.dump()), esc(&b.dump())));
                    }
                    None
                });
                n += 1;
                let why = match r {
                    Ok(None) => None,
                    Ok(Some(w)) => Some(w),
                    Err(p) => Some(format!("panic: {}", p)),
                };
                if let Some(w) = why {
                    bad = Some((head, k, tail, w));
                    break 'outer;
                }
            }
        }
    }
    if let Some((head, _k, tail, w)) = bad {
        emit_violation(ctx, rep, "C11", serde_json::json!({"part":"every-cut-position","input":esc(&head),"input_raw":head,"probe":esc(&tail),"probe_raw":tail,
            "oracle":"dump-roundtrip-cut-sequence","observed":w}));
    }
    rep.evaluations += n;
    rep.traces_validated += n;
    rep.parts.push(serde_json::json!({"part":"every-cut-position","sequences":seqs.len(),"prefixes":prefixes.len(),"cuts":n}));
    println!("part every-cut-position: {} sequences, {} cuts", seqs.len(), n);
}

/// Runs of EVERY length: on one very wide row (20 010 columns; thorough 40 010) a run of n
/// cells in one pen followed by W - n untouched blanks and a letter below, for every n - the
/// dump, fed to a fresh terminal, gives the same cells, wrap marks and cursor. (However the
/// dump abbreviates runs, every run length up to the width passes through it, twice.)
fn runs_of_every_length(ctx: &Ctx, rep: &mut Report) {
    use rayon::prelude::*;
    let w: usize = ctx.tier.pick(20_010, 40_010);
    let ns: Vec<usize> = (1..w).collect();
    let bad: Vec<(usize, String)> = ns
        .par_iter()
        .filter_map(|&n| {
            let r = crate::engine::guarded(|| {
                let mut a = build_vt(w, 2, Some(0));
                let _ = a.feed_str(&format!("\x1b[41m\x1b[{}X\x1b[m\x1b[2;1Hz", n.min(65535)));
                if n > 65535 {
                    return None;
                }
                let d = a.dump();
                let mut b = build_vt(w, 2, Some(0));
                let _ = b.feed_str(&d);
                let (ca, cb) = (a.cursor(), b.cursor());
                if (ca.col, ca.row, ca.visible) != (cb.col, cb.row, cb.visible) {
                    return Some(format!("cursor ({}, {}) became ({}, {})", ca.col, ca.row, cb.col, cb.row));
                }
                for (i, (la, lb)) in a.view().iter().zip(b.view().iter()).enumerate() {
                    if la != lb {
                        return Some(match la.cells().iter().zip(lb.cells().iter()).position(|(x, y)| x != y) {
                            Some(k) => format!("row {}: first differing cell at column {}", i, k),
                            None => format!("row {}: same cells, another length ({} / {}) or wrap mark", i, la.len(), lb.len()),
                        });
                    }
                }
                None
            });
            match r {
                Ok(None) => None,
                Ok(Some(d)) => Some((n, d)),
                Err(m) => Some((n, format!("panic: {}", m))),
            }
        })
        .collect();
    let n = ns.len() as u64;
    rep.evaluations += n;
    rep.traces_validated += n;
    rep.parts.push(serde_json::json!({"part":"runs-of-every-length","width":w,"runs":n,"violating":bad.len()}));
    println!("part runs-of-every-length: {} run lengths on a {}-column row, {} violating", n, w, bad.len());
    if let Some((k, d)) = bad.iter().min_by_key(|x| x.0) {
        emit_violation(ctx, rep, "C11", serde_json::json!({"part":"runs-of-every-length","width":w,"run":k,"oracle":"dump-roundtrip","observed":format!("{} columns, a run of {} cells in one pen then {} blanks: after the round trip {}", w, k, w - k, d)}));
        rep.violations += bad.len() as u64 - 1;
    }
}

pub fn run(ctx: &Ctx) -> Report {
    let mut rep = Report::new();
    pen_encodings(ctx, &mut rep);
    cut_sweep(ctx, &mut rep);
    runs_of_every_length(ctx, &mut rep);
    let sa = SysA { sys: make(&ctx.known), conts: &conts_full };
    let sb = SysA { sys: make(&ctx.known), conts: &conts_deep };
    let (full, deep) = parts!(ctx.tier, &sa, &sb);
    run_part(ctx, &mut rep, &full);
    run_part(ctx, &mut rep, &deep);
    let sc = SysA { sys: make(&ctx.known), conts: &conts_layout };
    run_part(ctx, &mut rep, &layout_part(ctx.tier, &sc));
    let sw = SysA { sys: make(&ctx.known), conts: &conts_wide_layout };
    run_part(ctx, &mut rep, &wide_layout_part(ctx.tier, &sw));
    let sp = SysA { sys: make(&ctx.known), conts: &conts_pen_origin_core };
    run_part(ctx, &mut rep, &pen_origin_core_part(ctx.tier, &sp));
    let hits: Vec<(String, u64, String)> = rep.known_hits.iter().map(|(k, (n, w))| (k.clone(), *n, w.clone())).collect();
    rep.known_hits.clear();
    for (id, n, w) in hits {
        emit_known(ctx, &mut rep, &id, n, &w);
    }
    let cmp: u64 = rep.counters.iter().filter(|(k, _)| k.ends_with(".comparisons")).map(|(_, v)| *v).sum();
    rep.evaluations += cmp;
    rep.traces_validated = cmp;
    rep.rule = "BFS over op histories (texts, margins, every mode, save/restore, 47/1047/1049, edits, SGR, tabs, charsets, RIS/DECSTR, 14 truncated sequences, resizes); at EVERY distinct state the dump is fed to a fresh terminal of the same size and the two are compared immediately, after each probe of the battery, and after every feed op of the alphabet; a failing state is a KNOWN-FINDING only if black-box measurements put it in a listed class; plus every cut position of 46 long / awkward sequences (dump of the interrupted parser, remainder completed on both) and a layout alphabet on a 3x9 screen (wrapped rows with emptied continuation, blank stretches, far-down content)".into();
    rep.assumptions = vec![
        "equivalence is observational: size, cursor (col,row,visible), cursor-key mode, every cell's char + pen, wrap marks of the view".into(),
        "continuations are feeds only (scrollback is not dumped, so a later resize may differ)".into(),
        "KF-C11-c excuses only mismatches after an input that leaves the alternate screen".into(),
    ];
    rep
}

pub fn replay(ctx: &Ctx, v: &Value) -> bool {
    if v["part"] == "pen-encodings" {
        let input = v["input_raw"].as_str().unwrap();
        let p = v["probe_raw"].as_str().unwrap();
        let mut vt = build_vt(3, 2, None);
        let _ = vt.feed_str(input);
        let d = vt.dump();
        let _ = vt.feed_str(p);
        let mut b = build_vt(3, 2, None);
        let _ = b.feed_str(&d);
        let _ = b.feed_str(p);
        println!("original {:?} / restored {:?}", obs(&vt).rows, obs(&b).rows);
        return obs(&vt) != obs(&b);
    }
    if v["part"] == "runs-of-every-length" {
        let tier = if v["tier"] == "thorough" { Tier::Thorough } else { Tier::Quick };
        let c2 = Ctx { id: ctx.id.clone(), tier, seed: 0, start: ctx.start, known: ctx.known.clone(), replay_dir: ctx.replay_dir.clone() };
        let mut rep = Report::new();
        runs_of_every_length(&c2, &mut rep);
        return rep.violations > 0;
    }
    if v["part"] == "every-cut-position" {
        let (head, tail) = (v["input_raw"].as_str().unwrap(), v["probe_raw"].as_str().unwrap());
        let mut a = build_vt(6, 3, None);
        let _ = a.feed_str(head);
        let d = a.dump();
        let mut b = build_vt(6, 3, None);
        let _ = b.feed_str(&d);
        let _ = a.feed_str(tail);
        let _ = b.feed_str(tail);
        println!("original {:?} / restored {:?}", obs(&a).rows, obs(&b).rows);
        return obs(&a) != obs(&b) || a.dump() != b.dump();
    }
    let tier = if v["tier"] == "thorough" { Tier::Thorough } else { Tier::Quick };
    let sa = SysA { sys: make(&ctx.known), conts: &conts_full };
    let sb = SysA { sys: make(&ctx.known), conts: &conts_deep };
    let (full, deep) = parts!(tier, &sa, &sb);
    match v["part"].as_str().unwrap_or("") {
        "sparse-tall-screen" => {
            let sc = SysA { sys: make(&ctx.known), conts: &conts_layout };
            replay_part(ctx, &layout_part(tier, &sc), v)
        }
        "pen-origin-save-core-deep" => {
            let sp = SysA { sys: make(&ctx.known), conts: &conts_pen_origin_core };
            replay_part(ctx, &pen_origin_core_part(tier, &sp), v)
        }
        "wide-screen-layouts" => {
            let sw = SysA { sys: make(&ctx.known), conts: &conts_wide_layout };
            replay_part(ctx, &wide_layout_part(tier, &sw), v)
        }
        "full-alphabet" => replay_part(ctx, &full, v),
        _ => replay_part(ctx, &deep, v),
    }
}
