//! Large-screen parameter sweeps shared by the lock-step checks C04-C07.
//!
//! The small-screen BFS parts reach deep histories with few parameter values; these
//! parts do the opposite: on a 12x8 (and larger) screen filled with distinct content,
//! EVERY parameter value 0..=max(cols,rows)+2 of every function of the property, from
//! every "placement" (scroll region x origin mode x cursor cell incl. wrap-pending),
//! as a depth-2 BFS over (placements U functions) - so every function is also seen
//! after every other function and placement after placement.

use crate::lockstep::LockStep;
use crate::ops::Cmd::*;
use crate::ops::*;
use crate::report::*;

/// every cell gets a letter that differs from its four neighbours
pub fn fill(cfg: &Cfg) -> Vec<Cmd> {
    let mut v = vec![];
    for r in 0..cfg.rows {
        v.push(Cup(Some(r as u32 + 1), Some(1)));
        let s: String = (0..cfg.cols).map(|cc| char::from_u32('A' as u32 + ((r * 7 + cc * 3) % 26) as u32).unwrap()).collect();
        v.push(Text(s));
    }
    v.push(Cup(Some(1), Some(1)));
    v
}

fn picks(n: usize) -> Vec<u32> {
    // first, second, third, middle, last but one, last
    let mut v: Vec<u32> = vec![1, 2, 3, (n as u32 + 1) / 2, n as u32 - 1, n as u32];
    v.retain(|&x| x >= 1 && x <= n as u32);
    v.sort();
    v.dedup();
    v
}

/// region x origin mode x cursor cell (+ wrap-pending on the picked rows)
pub fn placements(cfg: &Cfg, all_cells: bool) -> Vec<Op> {
    let (cols, rows) = (cfg.cols as u32, cfg.rows as u32);
    let mut v = vec![];
    let regions: Vec<(P, P)> = vec![(None, None), (Some(3), Some(rows - 2)), (Some(1), Some(rows / 2 + 1)), (Some(rows / 2), Some(rows))];
    let rs: Vec<u32> = if all_cells { (1..=rows).collect() } else { picks(cfg.rows) };
    let cs: Vec<u32> = if all_cells { (1..=cols).collect() } else { picks(cfg.cols) };
    for (a, b) in regions {
        for origin in [false, true] {
            for &r in &rs {
                for &cc in &cs {
                    let mode = if origin { DecSet(vec![6]) } else { DecRst(vec![6]) };
                    v.push(c(Seq(vec![Decstbm(a, b), mode, Cup(Some(r), Some(cc))])));
                }
                // wrap-pending in this row
                if !origin {
                    v.push(c(Seq(vec![Decstbm(a, b), DecRst(vec![6]), Cup(Some(r), Some(cols)), Text("z".into())])));
                }
            }
        }
    }
    v
}

fn every(n: u32) -> Vec<P> {
    let mut v: Vec<P> = vec![None];
    v.extend((0..=n).map(Some));
    v
}

pub fn move_funcs(cfg: &Cfg) -> Vec<Op> {
    let n = cfg.cols.max(cfg.rows) as u32 + 2;
    let mut v = vec![c(Bs), c(Cr), c(Lf), c(Ri), c(Nel), c(Ht)];
    for p in every(n) {
        for cmd in [Cuu(p), Cud(p), Cuf(p), Cub(p), Cnl(p), Cpl(p), Cha(p), Vpa(p), Vpr(p), Cht(p), Cbt(p)] {
            v.push(c(cmd));
        }
    }
    for r in 0..=cfg.rows as u32 + 1 {
        for cc in 0..=cfg.cols as u32 + 1 {
            v.push(c(Cup(Some(r), Some(cc))));
        }
    }
    v
}

pub fn scroll_funcs(cfg: &Cfg) -> Vec<Op> {
    let n = cfg.rows as u32 + 2;
    let mut v = vec![c(Lf), c(Ri), c(Nel), calt(Lf, 3), Op::text(&"w".repeat(cfg.cols + 1))];
    for p in every(n) {
        for cmd in [Su(p), Sd(p), Il(p), Dl(p)] {
            v.push(c(cmd));
        }
    }
    for a in 0..=cfg.rows as u32 + 1 {
        for b in 0..=cfg.rows as u32 + 1 {
            v.push(c(Decstbm(Some(a), Some(b))));
        }
    }
    v.push(c(sgr1(44)));
    v.push(c(Sm(vec![20])));
    v.push(c(DecRst(vec![25])));
    v
}

pub fn edit_funcs(cfg: &Cfg) -> Vec<Op> {
    let n = cfg.cols as u32 + 2;
    let mut v = vec![
        c(Decaln),
        c(sgr1(44)),
        c(sgr1(0)),
        c(Seq(vec![DecRst(vec![25]), DecSet(vec![1]), Sm(vec![20]), Sm(vec![4])])),
    ];
    for p in every(n) {
        for cmd in [Ich(p), Dch(p), Ech(p)] {
            v.push(c(cmd));
        }
    }
    for p in [None, Some(0), Some(1), Some(2), Some(3), Some(4)] {
        v.push(c(El(p)));
        v.push(c(Ed(p)));
    }
    v
}

pub fn print_funcs(cfg: &Cfg) -> Vec<Op> {
    let n = cfg.cols as u32 * 2 + 2;
    let mut v = vec![
        t("x"),
        t("é"),
        t("漢"),
        t("q\u{301}"),
        c(Sm(vec![4])),
        c(Rm(vec![4])),
        c(DecRst(vec![7])),
        c(DecSet(vec![7])),
        c(Desig(0, true)),
        c(Desig(0, false)),
        c(So),
        c(Si),
        c(Desig(1, true)),
        c(sgr1(44)),
    ];
    for p in every(n) {
        v.push(c(Rep(p)));
    }
    for len in 2..=cfg.cols * 2 + 1 {
        let s: String = (0..len).map(|i| char::from_u32('a' as u32 + (i % 26) as u32).unwrap()).collect();
        v.push(Op::text(&s));
    }
    v
}

pub fn sweep_cfgs(tier: Tier) -> Vec<Cfg> {
    match tier {
        Tier::Quick => cfgs(&[(12, 8)], &[None]),
        Tier::Thorough => cfgs(&[(12, 8), (9, 7), (17, 6), (34, 9)], &[None]),
    }
}

pub fn sweep_part<'a>(name: &'static str, sys: &'a LockStep, alphabet: &'a (dyn Fn(&Cfg) -> Vec<Op> + Sync), tier: Tier) -> Part<'a, LockStep> {
    Part {
        name,
        sys,
        cfgs: sweep_cfgs(tier),
        alphabet,
        depth: 2,
        seconds: tier.pick(20.0, 1800.0),
        validated: true,
        nontrivial: Some("lockstep_transitions"),
    }
}

/// Mode lists: every implemented DEC private mode (and ANSI modes 4, 20) alone, after and
/// before an unimplemented number, between two of them, and paired with another implemented
/// mode - set and reset. The hidden mode flags, the screen that is showing and the saved
/// contexts are compared after every step, so depth 2 (setup, list) already judges each.
pub fn mode_list_ops() -> Vec<Op> {
    let mut v = vec![c(Cup(Some(2), Some(2))), t("ab"), c(Decstbm(Some(2), Some(3))), c(sgr1(41)), c(Decsc)];
    let unknown = [0u32, 2, 12, 2004, 65535];
    let dec = [1u32, 6, 7, 25, 47, 1047, 1048, 1049];
    for &m in &dec {
        let mut lists: Vec<Vec<u32>> = vec![vec![m]];
        for &u in &unknown {
            lists.push(vec![u, m]);
            lists.push(vec![m, u]);
        }
        lists.push(vec![12, m, 2004]);
        lists.push(vec![2004, 12, m]);
        for &m2 in &dec {
            if m2 != m && !(matches!(m, 47 | 1047 | 1049) && matches!(m2, 47 | 1047 | 1049)) {
                lists.push(vec![m, m2]);
            }
        }
        for l in lists {
            v.push(c(DecSet(l.clone())));
            v.push(c(DecRst(l)));
        }
    }
    for l in [vec![4u32], vec![20], vec![2, 4], vec![4, 2], vec![12, 20], vec![4, 20], vec![0, 4, 99]] {
        v.push(c(Sm(l.clone())));
        v.push(c(Rm(l)));
    }
    v
}

fn mode_alpha(_cfg: &Cfg) -> Vec<Op> {
    mode_list_ops()
}

pub fn mode_part<'a>(sys: &'a LockStep, tier: Tier) -> Part<'a, LockStep> {
    Part {
        name: "mode-list-shapes",
        sys,
        cfgs: cfgs(&[(4, 3)], &[None]),
        alphabet: &mode_alpha,
        depth: tier.pick(2, 3),
        seconds: tier.pick(15.0, 1800.0),
        validated: true,
        nontrivial: Some("lockstep_transitions"),
    }
}

/// EVERY private mode number 0..=65535, set and reset, from a state in which the pen,
/// the saved context, the margins and the cursor are away from their defaults: an
/// unimplemented number changes nothing, an implemented one does what the model says.
/// A divergence is reported by the check that owns the component (pen: C08, saved
/// context: C17, showing screen: C16, margins / origin: C05, auto-wrap: C04).
pub fn mode_number_sweep(ctx: &Ctx, rep: &mut Report, sys: &LockStep) {
    use crate::lockstep::{lock_apply, LSt, Outcome};
    use crate::refterm::RefTerm;
    use rayon::prelude::*;
    let cfg = Cfg::new(5, 4, None);
    // two seeds: the cursor away from the saved position, and on it (so that an unrequested
    // restore shows in the pen alone - the first difference found decides who reports)
    let seed_a: Vec<Cmd> = vec![
        Decstbm(Some(2), Some(3)),
        Sgr(vec![vec![Some(1)], vec![Some(4)], vec![Some(33)]]),
        Cup(Some(2), Some(2)),
        Decsc,
        Sgr(vec![vec![Some(0)], vec![Some(7)]]),
        Cup(Some(3), Some(1)),
        Text("x".into()),
    ];
    let seed_b: Vec<Cmd> = vec![
        Text("x".into()),
        Sgr(vec![vec![Some(1)], vec![Some(4)], vec![Some(33)]]),
        Cup(Some(2), Some(2)),
        Decsc,
        Sgr(vec![vec![Some(0)], vec![Some(7)]]),
    ];
    let nums: Vec<u32> = (0..=65535u32).collect();
    let bad: Vec<(u32, bool, String)> = nums
        .par_iter()
        .filter_map(|&n| {
            for (set, seed) in [(true, &seed_a), (false, &seed_a), (true, &seed_b), (false, &seed_b)] {
                let r = crate::engine::guarded(|| {
                    let mut st = LSt { vt: cfg.build(), model: RefTerm::new(cfg.cols, cfg.rows), dead: false };
                    for cmd in seed.iter() {
                        if !matches!(lock_apply(&mut st, &Op::new(cmd.clone())), Outcome::Ok) {
                            return None; // the seed itself diverges: the BFS parts report that
                        }
                    }
                    let cmd = if set { DecSet(vec![n]) } else { DecRst(vec![n]) };
                    match lock_apply(&mut st, &Op::new(cmd)) {
                        Outcome::Mismatch(c2, w) if sys.blame(&c2, &w) => Some(format!("after {:?}: {}", c2, w)),
                        _ => None,
                    }
                });
                match r {
                    Ok(None) => {}
                    Ok(Some(d)) => return Some((n, set, d)),
                    Err(p) => return Some((n, set, format!("panic: {}", p))),
                }
            }
            None
        })
        .collect();
    let runs = nums.len() as u64 * 4;
    rep.evaluations += runs;
    rep.transitions += runs;
    rep.traces_validated += runs;
    rep.parts.push(serde_json::json!({"part":"every-mode-number","numbers":nums.len(),"runs":runs,"violating":bad.len()}));
    println!("part every-mode-number: {} numbers x set/reset, {} violating", nums.len(), bad.len());
    for (n, set, d) in bad.iter().take(3) {
        emit_violation(ctx, rep, sys.property, serde_json::json!({"part":"every-mode-number","mode":n,"set":set,"oracle":"reference-terminal","observed":d}));
    }
    if bad.len() > 3 {
        rep.violations += bad.len() as u64 - 3;
    }
}

/// replay helper: re-run the sweep, true if it still finds a violation
pub fn mode_number_replay(ctx: &Ctx, sys: &LockStep) -> bool {
    let mut rep = Report::new();
    mode_number_sweep(ctx, &mut rep, sys);
    rep.violations > 0
}
