//! Large-screen parameter sweeps shared by the lock-step checks C04-C07.
//!
//! The small-screen BFS parts reach deep histories with few parameter values; these
//! parts do the opposite: on a 12x8 (and larger) screen filled with distinct content,
//! EVERY parameter value 0..=max(cols,rows)+2 of every function of the property, from
//! every "placement" (scroll region x origin mode x cursor cell incl. wrap-pending),
//! as a depth-2 BFS over (placements U functions) - so every function is also seen
//! after every other function and placement after placement.

use crate::lockstep::LockStep;
use crate::ops::Cmd::*;
use crate::ops::*;
use crate::report::*;

/// every cell gets a letter that differs from its four neighbours
pub fn fill(cfg: &Cfg) -> Vec<Cmd> {
    let mut v = vec![];
    let glyph = |r: usize, cc: usize| -> char {
        // (a Latin-1, a double-width and a zero-width character in every row of a screen that is
        // wide enough to have them away from the picked cursor columns)
        match (cfg.cols >= 20, (r * 5 + cc) % 23) {
            (true, 7) => 'é',
            (true, 13) => '漢',
            (true, 19) => '\u{301}',
            // (lowercase: the range the special-graphics set translates, so that a character
            // REPeated or re-typed under another charset than it was written in shows)
            _ => char::from_u32('a' as u32 + ((r * 7 + cc * 3) % 26) as u32).unwrap(),
        }
    };
    let mut r = 0;
    while r < cfg.rows {
        v.push(Cup(Some(r as u32 + 1), Some(1)));
        // on screens of 10 rows and more every fifth row is typed through into the next one:
        // soft-wrapped rows among the hard-ended ones (also as the last row of a region)
        let joined = cfg.rows >= 10 && r % 5 == 4 && r + 1 < cfg.rows;
        let mut s: String = (0..cfg.cols).map(|cc| glyph(r, cc)).collect();
        if joined {
            s.extend((0..cfg.cols).map(|cc| glyph(r + 1, cc)));
        }
        v.push(Text(s));
        r += if joined { 2 } else { 1 };
    }
    v.push(Cup(Some(1), Some(1)));
    v
}

/// The other kind of screen: short texts at the left edge (with a double-width, a Latin-1
/// and a zero-width character among the letters), then blanks - and among the blanks
/// stretches that were erased under other pens, one of them reaching the right edge on
/// every third row. What a row "contains" is not where its last letter is.
pub fn fill_sparse(cfg: &Cfg) -> Vec<Cmd> {
    let cols = cfg.cols as u32;
    let mut v = vec![];
    for r in 0..cfg.rows {
        v.push(Cup(Some(r as u32 + 1), Some(1)));
        if cols >= 12 && cfg.rows > 3 && r == cfg.rows - 2 {
            // a row that is blank AND soft-wrapped: blanks typed up to the right edge and beyond
            v.push(Text(format!("{}y", " ".repeat(cfg.cols))));
            continue;
        }
        let len = 1 + (r * 5) % (cfg.cols / 3).max(2);
        let s: String = (0..len)
            .map(|k| match (r + k) % 9 {
                4 => 'é',
                6 => '漢',
                8 => '\u{301}',
                _ => char::from_u32('A' as u32 + ((r * 7 + k * 3) % 26) as u32).unwrap(),
            })
            .collect();
        v.push(Text(s));
        if cols >= 12 && r % 2 == 1 {
            // a second, short piece of text behind a gap of never-written blanks
            v.push(Cup(Some(r as u32 + 1), Some(cols * 5 / 8)));
            v.push(Text("mid".into()));
        }
        if cols >= 12 && r % 4 != 1 {
            // stretches erased under other pens (not on every row: on the others the rest of
            // the row really is untouched)
            v.push(sgr1(44));
            v.push(Cup(Some(r as u32 + 1), Some(cols / 2)));
            v.push(Ech(Some(cols / 8 + 1)));
            v.push(sgr1(if r % 2 == 0 { 42 } else { 4 }));
            let tail = if r % 3 == 0 { 3 } else { 5 };
            v.push(Cup(Some(r as u32 + 1), Some(cols - tail)));
            v.push(Ech(Some(3)));
            v.push(sgr1(0));
        }
    }
    v.push(Cup(Some(1), Some(1)));
    v
}

fn picks(n: usize) -> Vec<u32> {
    // first, second, third, middle, last but one, last
    let mut v: Vec<u32> = vec![1, 2, 3, (n as u32 + 1) / 2, n as u32 - 1, n as u32];
    v.retain(|&x| x >= 1 && x <= n as u32);
    v.sort();
    v.dedup();
    v
}

/// region x origin mode x cursor cell (+ wrap-pending on the picked rows)
pub fn placements(cfg: &Cfg, all_cells: bool) -> Vec<Op> {
    let (cols, rows) = (cfg.cols as u32, cfg.rows as u32);
    let mut v = vec![];
    let regions: Vec<(P, P)> = vec![(None, None), (Some(3), Some(rows - 2)), (Some(1), Some(rows / 2 + 1)), (Some(rows / 2), Some(rows))];
    let rs: Vec<u32> = if all_cells { (1..=rows).collect() } else { picks(cfg.rows) };
    let cs: Vec<u32> = if all_cells { (1..=cols).collect() } else { picks(cfg.cols) };
    for (a, b) in regions {
        for origin in [false, true] {
            for &r in &rs {
                for &cc in &cs {
                    let mode = if origin { DecSet(vec![6]) } else { DecRst(vec![6]) };
                    v.push(c(Seq(vec![Decstbm(a, b), mode, Cup(Some(r), Some(cc))])));
                }
                // wrap-pending in this row
                if !origin {
                    v.push(c(Seq(vec![Decstbm(a, b), DecRst(vec![6]), Cup(Some(r), Some(cols)), Text("z".into())])));
                }
            }
        }
    }
    v
}

fn every(n: u32) -> Vec<P> {
    let mut v: Vec<P> = vec![None];
    v.extend((0..=n).map(Some));
    v
}

pub fn move_funcs(cfg: &Cfg) -> Vec<Op> {
    let n = cfg.cols.max(cfg.rows) as u32 + 2;
    let mut v = vec![c(Bs), c(Cr), c(Lf), c(Ri), c(Nel), c(Ht)];
    for p in every(n) {
        for cmd in [Cuu(p), Cud(p), Cuf(p), Cub(p), Cnl(p), Cpl(p), Cha(p), Vpa(p), Vpr(p), Cht(p), Cbt(p)] {
            v.push(c(cmd));
        }
    }
    for r in 0..=cfg.rows as u32 + 1 {
        for cc in 0..=cfg.cols as u32 + 1 {
            v.push(c(Cup(Some(r), Some(cc))));
        }
    }
    v
}

pub fn scroll_funcs(cfg: &Cfg) -> Vec<Op> {
    let n = cfg.rows as u32 + 2;
    let mut v = vec![c(Lf), c(Ri), c(Nel), calt(Lf, 3), Op::text(&"w".repeat(cfg.cols + 1))];
    for p in every(n) {
        for cmd in [Su(p), Sd(p), Il(p), Dl(p)] {
            v.push(c(cmd));
        }
    }
    for a in 0..=cfg.rows as u32 + 1 {
        for b in 0..=cfg.rows as u32 + 1 {
            v.push(c(Decstbm(Some(a), Some(b))));
        }
    }
    v.push(c(sgr1(44)));
    v.push(c(Sm(vec![20])));
    v.push(c(DecRst(vec![25])));
    v
}

pub fn edit_funcs(cfg: &Cfg) -> Vec<Op> {
    let n = cfg.cols as u32 + 2;
    let mut v = vec![
        c(Decaln),
        c(sgr1(44)),
        c(sgr1(0)),
        c(Seq(vec![DecRst(vec![25]), DecSet(vec![1]), Sm(vec![20]), Sm(vec![4])])),
    ];
    for p in every(n) {
        for cmd in [Ich(p), Dch(p), Ech(p)] {
            v.push(c(cmd));
        }
    }
    for p in [None, Some(0), Some(1), Some(2), Some(3), Some(4)] {
        v.push(c(El(p)));
        v.push(c(Ed(p)));
    }
    v
}

pub fn print_funcs(cfg: &Cfg) -> Vec<Op> {
    let n = cfg.cols as u32 * 2 + 2;
    let mut v = vec![
        t("x"),
        t("é"),
        t("漢"),
        t("q\u{301}"),
        c(Sm(vec![4])),
        c(Rm(vec![4])),
        c(DecRst(vec![7])),
        c(DecSet(vec![7])),
        c(Desig(0, true)),
        c(Desig(0, false)),
        c(So),
        c(Si),
        c(Desig(1, true)),
        c(sgr1(44)),
    ];
    for p in every(n) {
        v.push(c(Rep(p)));
    }
    for len in 2..=cfg.cols * 2 + 1 {
        let s: String = (0..len).map(|i| char::from_u32('a' as u32 + (i % 26) as u32).unwrap()).collect();
        v.push(Op::text(&s));
    }
    v
}

// ---------------------------------------------------------------------------
// Realistic screens (80x24 and larger): layered alphabet - level 0 places the cursor
// (region x origin mode x picked cells, wrap-pending), level 1 runs every function of
// the property with EVERY parameter value 0..=max(cols, rows)+2 and the values around
// the powers of two and type boundaries beyond. Depth 2, so each function is judged from
// every placement, on a screen whose rows and columns exceed 8 bits of nothing but do
// cross 16, 32, 64 (and 128 in the thorough tier).

fn wide_values(n: usize) -> Vec<P> {
    let mut v: Vec<u32> = (0..=n as u32 + 2).collect();
    v.extend([99, 100, 101, 127, 128, 129, 254, 255, 256, 257, 300, 511, 512, 513, 999, 1000, 1023, 1024, 1025, 4095, 4096, 9999, 10000, 32767, 32768, 65534, 65535]);
    v.sort();
    v.dedup();
    let mut r: Vec<P> = vec![None];
    r.extend(v.into_iter().map(Some));
    r
}
/// parameter values for a count of rows / of columns
pub fn wide_row_params(cfg: &Cfg) -> Vec<P> {
    wide_values(cfg.rows)
}
pub fn wide_col_params(cfg: &Cfg) -> Vec<P> {
    wide_values(cfg.cols)
}

fn few(n: usize) -> Vec<u32> {
    let mut v: Vec<u32> = vec![1, 2, (n as u32 + 1) / 2, n as u32 - 1, n as u32];
    v.retain(|&x| x >= 1 && x <= n as u32);
    v.sort();
    v.dedup();
    v
}

/// region x origin mode x (first row, both margins, a row inside, last row) x (first, middle,
/// last column), plus wrap-pending on those rows
pub fn wide_placements(cfg: &Cfg) -> Vec<Op> {
    let (cols, rows) = (cfg.cols as u32, cfg.rows as u32);
    let mut v = vec![];
    let mut regions: Vec<(u32, u32)> = vec![(1, rows), (5, rows.saturating_sub(4)), (1, rows / 2 + 1), (rows / 2, rows)];
    regions.retain(|&(a, b)| a >= 1 && a < b && b <= rows);
    regions.dedup();
    for (a, b) in regions {
        let mut rs = vec![1, a, (a + b) / 2, b, rows];
        rs.sort();
        rs.dedup();
        for origin in [false, true] {
            for &r in &rs {
                for cc in [1, cols / 2, cols] {
                    let mode = if origin { DecSet(vec![6]) } else { DecRst(vec![6]) };
                    // with origin mode on, rows are addressed relative to the region
                    let rr = if origin { if r < a || r > b { continue } else { r - a + 1 } } else { r };
                    v.push(c(Seq(vec![Decstbm(Some(a), Some(b)), mode, Cup(Some(rr), Some(cc))])));
                }
                if !origin {
                    v.push(c(Seq(vec![Decstbm(Some(a), Some(b)), DecRst(vec![6]), Cup(Some(r), Some(cols)), Text("z".into())])));
                }
            }
        }
    }
    v
}

pub fn wide_move_funcs(cfg: &Cfg) -> Vec<Op> {
    let mut v = vec![c(Bs), c(Cr), c(Lf), c(Ri), c(Nel), c(Ht)];
    for p in wide_row_params(cfg) {
        for cmd in [Cuu(p), Cud(p), Cnl(p), Cpl(p), Vpa(p), Vpr(p)] {
            v.push(c(cmd));
        }
    }
    for p in wide_col_params(cfg) {
        for cmd in [Cuf(p), Cub(p), Cha(p), Cht(p), Cbt(p)] {
            v.push(c(cmd));
        }
    }
    let (rows, cols) = (cfg.rows as u32, cfg.cols as u32);
    let mut cells: Vec<(u32, u32)> = vec![];
    for r in 0..=rows + 1 {
        for &cc in &few(cfg.cols) {
            cells.push((r, cc));
        }
    }
    for cc in 0..=cols + 1 {
        for &r in &few(cfg.rows) {
            cells.push((r, cc));
        }
    }
    for x in [255u32, 256, 257, 65535] {
        cells.push((x, 2));
        cells.push((2, x));
    }
    cells.sort();
    cells.dedup();
    for (r, cc) in cells {
        v.push(c(Cup(Some(r), Some(cc))));
    }
    v
}

pub fn wide_scroll_funcs(cfg: &Cfg) -> Vec<Op> {
    let mut v = vec![c(Lf), c(Ri), c(Nel), calt(Lf, 3), Op::text(&"w".repeat(cfg.cols + 1))];
    for p in wide_row_params(cfg) {
        for cmd in [Su(p), Sd(p), Il(p), Dl(p)] {
            v.push(c(cmd));
        }
    }
    let rows = cfg.rows as u32;
    let mut pairs: Vec<(u32, u32)> = vec![];
    for a in 0..=rows + 1 {
        for b in [0, 1, 2, rows / 2, rows - 1, rows, rows + 1] {
            pairs.push((a, b));
            pairs.push((b, a));
        }
        pairs.push((a, a));
        pairs.push((a, a + 1));
    }
    for x in [255u32, 256, 257, 65535] {
        pairs.push((2, x));
        pairs.push((x, rows));
    }
    pairs.sort();
    pairs.dedup();
    for (a, b) in pairs {
        v.push(c(Decstbm(Some(a), Some(b))));
    }
    v
}

pub fn wide_edit_funcs(cfg: &Cfg) -> Vec<Op> {
    let mut v = vec![c(Decaln)];
    for p in wide_col_params(cfg) {
        for cmd in [Ich(p), Dch(p), Ech(p)] {
            v.push(c(cmd));
        }
    }
    for p in [None, Some(0), Some(1), Some(2), Some(3), Some(4)] {
        v.push(c(El(p)));
        v.push(c(Ed(p)));
    }
    v
}

pub fn wide_print_funcs(cfg: &Cfg) -> Vec<Op> {
    let mut v = vec![t("x"), t("é"), t("漢"), t("q\u{301}")];
    for p in wide_values(cfg.cols * 2) {
        v.push(c(Rep(p)));
    }
    for len in 2..=cfg.cols * 2 + 1 {
        let s: String = (0..len).map(|i| char::from_u32('a' as u32 + (i % 26) as u32).unwrap()).collect();
        v.push(Op::text(&s));
    }
    // the same after a mode / charset switch in the same call
    for pre in [Sm(vec![4]), DecRst(vec![7]), Desig(0, true), sgr1(44)] {
        for len in [1usize, 2, cfg.cols - 1, cfg.cols, cfg.cols + 1] {
            let s: String = (0..len).map(|i| char::from_u32('a' as u32 + (i % 26) as u32).unwrap()).collect();
            v.push(c(Seq(vec![pre.clone(), Text(s)])));
        }
    }
    // REP of every count in insert mode, with auto-wrap off and under the other charset than
    // the repeated character was written in ("as if typed": translated, inserted, parked)
    for pre in [Sm(vec![4]), DecRst(vec![7]), Desig(0, true)] {
        for p in wide_values(cfg.cols + 2) {
            v.push(c(Seq(vec![pre.clone(), Rep(p)])));
        }
    }
    v
}

/// placements at level 0 only, functions at level 1 only
pub fn layered(placements: Vec<Op>, funcs: Vec<Op>) -> Vec<Op> {
    let mut v: Vec<Op> = placements.into_iter().map(|o| o.at(1)).collect();
    v.extend(funcs.into_iter().map(|o| o.at(2)));
    v
}

pub fn wide_cfgs(tier: Tier) -> Vec<Cfg> {
    match tier {
        Tier::Quick => cfgs(&[(80, 24)], &[None]),
        Tier::Thorough => cfgs(&[(80, 24), (132, 43), (65, 33), (257, 20), (40, 130)], &[None]),
    }
}

pub fn wide_part<'a>(name: &'static str, sys: &'a LockStep, alphabet: &'a (dyn Fn(&Cfg) -> Vec<Op> + Sync), tier: Tier) -> Part<'a, LockStep> {
    wide_part_on(name, sys, alphabet, wide_cfgs(tier), tier)
}

pub fn wide_part_on<'a>(name: &'static str, sys: &'a LockStep, alphabet: &'a (dyn Fn(&Cfg) -> Vec<Op> + Sync), cfgs: Vec<Cfg>, tier: Tier) -> Part<'a, LockStep> {
    Part {
        name,
        sys,
        cfgs,
        alphabet,
        depth: 2,
        seconds: tier.pick(20.0, 1800.0),
        validated: true,
        nontrivial: Some("lockstep_transitions"),
    }
}

pub fn sweep_cfgs(tier: Tier) -> Vec<Cfg> {
    match tier {
        Tier::Quick => cfgs(&[(12, 8)], &[None]),
        Tier::Thorough => cfgs(&[(12, 8), (9, 7), (17, 6), (34, 9)], &[None]),
    }
}

pub fn sweep_part<'a>(name: &'static str, sys: &'a LockStep, alphabet: &'a (dyn Fn(&Cfg) -> Vec<Op> + Sync), tier: Tier) -> Part<'a, LockStep> {
    Part {
        name,
        sys,
        cfgs: sweep_cfgs(tier),
        alphabet,
        depth: 2,
        seconds: tier.pick(20.0, 1800.0),
        validated: true,
        nontrivial: Some("lockstep_transitions"),
    }
}

/// Mode lists: every implemented DEC private mode (and ANSI modes 4, 20) alone, after and
/// before an unimplemented number, between two of them, and paired with another implemented
/// mode - set and reset. The hidden mode flags, the screen that is showing and the saved
/// contexts are compared after every step, so depth 2 (setup, list) already judges each.
pub fn mode_list_ops() -> Vec<Op> {
    let mut v = vec![c(Cup(Some(2), Some(2))), t("ab"), c(Decstbm(Some(2), Some(3))), c(sgr1(41)), c(Decsc)];
    let unknown = [0u32, 2, 12, 2004, 65535];
    let dec = [1u32, 6, 7, 25, 47, 1047, 1048, 1049];
    for &m in &dec {
        let mut lists: Vec<Vec<u32>> = vec![vec![m]];
        for &u in &unknown {
            lists.push(vec![u, m]);
            lists.push(vec![m, u]);
        }
        lists.push(vec![12, m, 2004]);
        lists.push(vec![2004, 12, m]);
        for &m2 in &dec {
            if m2 != m && !(matches!(m, 47 | 1047 | 1049) && matches!(m2, 47 | 1047 | 1049)) {
                lists.push(vec![m, m2]);
            }
        }
        for l in lists {
            v.push(c(DecSet(l.clone())));
            v.push(c(DecRst(l)));
        }
    }
    // the same mode twice in one list (1048 / 1049 / 6 are ACTIONS: each mention counts), with
    // and without something else in between
    for &m in &dec {
        for l in [vec![m, m], vec![m, 6, m], vec![m, 7, 25, m], vec![6, m, 6]] {
            v.push(c(DecSet(l.clone())));
            v.push(c(DecRst(l)));
        }
    }
    // setups that leave the other screen parked in another geometry and with history
    let five = || vec![Text("1".into()), Nel, Text("2".into()), Nel, Text("3".into()), Nel, Text("4".into()), Nel, Text("5".into())];
    let mut a = five();
    a.extend([DecSet(vec![1049]), Resize(4, 5)]);
    v.push(c(Seq(a)));
    let mut b = five();
    b.extend([DecSet(vec![47]), Resize(6, 3), Decstbm(Some(2), Some(3)), DecSet(vec![6])]);
    v.push(c(Seq(b)));
    // a mode at EVERY position of a long list: after 1..=31 other implemented modes (toggled
    // back and forth so that they cancel) the k-th entry still counts
    for &m in &[1u32, 6, 7, 25, 1047, 1048, 1049] {
        for k in [4usize, 7, 8, 9, 10, 15, 16, 17, 31] {
            let mut l: Vec<u32> = (0..k).map(|i| if i % 2 == 0 { 7 } else { 25 }).collect();
            l.push(m);
            v.push(c(DecSet(l.clone())));
            v.push(c(DecRst(l)));
        }
    }
    for l in [vec![4u32], vec![20], vec![2, 4], vec![4, 2], vec![12, 20], vec![4, 20], vec![0, 4, 99]] {
        v.push(c(Sm(l.clone())));
        v.push(c(Rm(l)));
    }
    v
}

fn mode_alpha(_cfg: &Cfg) -> Vec<Op> {
    mode_list_ops()
}

pub fn mode_part<'a>(sys: &'a LockStep, tier: Tier) -> Part<'a, LockStep> {
    Part {
        name: "mode-list-shapes",
        sys,
        cfgs: cfgs(&[(4, 3)], &[None]),
        alphabet: &mode_alpha,
        depth: tier.pick(2, 3),
        seconds: tier.pick(15.0, 1800.0),
        validated: true,
        nontrivial: Some("lockstep_transitions"),
    }
}

/// EVERY private mode number 0..=65535, set and reset, from a state in which the pen,
/// the saved context, the margins and the cursor are away from their defaults: an
/// unimplemented number changes nothing, an implemented one does what the model says.
/// A divergence is reported by the check that owns the component (pen: C08, saved
/// context: C17, showing screen: C16, margins / origin: C05, auto-wrap: C04).
pub fn mode_number_sweep(ctx: &Ctx, rep: &mut Report, sys: &LockStep) {
    use crate::lockstep::{lock_apply, LSt, Outcome};
    use crate::refterm::RefTerm;
    use rayon::prelude::*;
    let cfg = Cfg::new(5, 4, None);
    // two seeds: the cursor away from the saved position, and on it (so that an unrequested
    // restore shows in the pen alone - the first difference found decides who reports)
    let seed_a: Vec<Cmd> = vec![
        Decstbm(Some(2), Some(3)),
        Sgr(vec![vec![Some(1)], vec![Some(4)], vec![Some(33)]]),
        Cup(Some(2), Some(2)),
        Decsc,
        Sgr(vec![vec![Some(0)], vec![Some(7)]]),
        Cup(Some(3), Some(1)),
        Text("x".into()),
    ];
    let seed_b: Vec<Cmd> = vec![
        Text("x".into()),
        Sgr(vec![vec![Some(1)], vec![Some(4)], vec![Some(33)]]),
        Cup(Some(2), Some(2)),
        Decsc,
        Sgr(vec![vec![Some(0)], vec![Some(7)]]),
    ];
    let nums: Vec<u32> = (0..=65535u32).collect();
    let bad: Vec<(u32, bool, String)> = nums
        .par_iter()
        .filter_map(|&n| {
            for (set, seed) in [(true, &seed_a), (false, &seed_a), (true, &seed_b), (false, &seed_b)] {
                let r = crate::engine::guarded(|| {
                    let mut st = LSt { vt: cfg.build(), model: RefTerm::new(cfg.cols, cfg.rows), dead: false, twins: vec![] };
                    for cmd in seed.iter() {
                        if !matches!(lock_apply(&mut st, &Op::new(cmd.clone())), Outcome::Ok) {
                            return None; // the seed itself diverges: the BFS parts report that
                        }
                    }
                    let cmd = if set { DecSet(vec![n]) } else { DecRst(vec![n]) };
                    match lock_apply(&mut st, &Op::new(cmd)) {
                        Outcome::Mismatch(c2, w) if sys.blame(&c2, &w) => return Some(format!("after {:?}: {}", c2, w)),
                        Outcome::Ok => {}
                        _ => return None,
                    }
                    // what follows must be executed as ever: a mode number that the terminal
                    // does not implement must not change the meaning of later sequences
                    // (one representative of every function class, both save / restore pairs)
                    if std::ptr::eq(seed, &seed_a) {
                        for cmd in continuation_script() {
                            match lock_apply(&mut st, &Op::new(cmd)) {
                                Outcome::Ok => {}
                                Outcome::Mismatch(c2, w) if sys.blame(&c2, &w) => return Some(format!("later {:?}: {}", c2, w)),
                                _ => return None,
                            }
                        }
                    }
                    None
                });
                match r {
                    Ok(None) => {}
                    Ok(Some(d)) => return Some((n, set, d)),
                    Err(p) => return Some((n, set, format!("panic: {}", p))),
                }
            }
            None
        })
        .collect();
    let runs = nums.len() as u64 * 4;
    rep.evaluations += runs;
    rep.transitions += runs;
    rep.traces_validated += runs;
    rep.parts.push(serde_json::json!({"part":"every-mode-number","numbers":nums.len(),"runs":runs,"violating":bad.len()}));
    println!("part every-mode-number: {} numbers x set/reset, {} violating", nums.len(), bad.len());
    for (n, set, d) in bad.iter().take(3) {
        emit_violation(ctx, rep, sys.property, serde_json::json!({"part":"every-mode-number","mode":n,"set":set,"oracle":"reference-terminal","observed":d}));
    }
    if bad.len() > 3 {
        rep.violations += bad.len() as u64 - 3;
    }
}

/// One representative of every function class (moves, tabs, prints incl. an auto-wrap, REP,
/// edits, scrolls, region, both save / restore pairs, SGR, charsets) - run in lock-step after
/// an input that must not change how later input is understood.
pub fn continuation_script() -> Vec<Cmd> {
    vec![
        Cup(Some(2), Some(3)),
        sgr1(1),
        Scosc,
        Cup(Some(1), Some(1)),
        sgr1(0),
        Scorc,
        Text("k".into()),
        Decsc,
        Cup(Some(3), Some(2)),
        sgr1(45),
        Decrc,
        Text("l".into()),
        Cuf(Some(1)),
        Cub(Some(2)),
        Cuu(Some(1)),
        Cud(Some(1)),
        Lf,
        Ri,
        Nel,
        Ht,
        Cbt(Some(1)),
        Bs,
        Ich(Some(1)),
        Dch(Some(1)),
        Ech(Some(1)),
        Rep(Some(2)),
        Il(Some(1)),
        Dl(Some(1)),
        Su(Some(1)),
        Sd(Some(1)),
        El(Some(1)),
        Decstbm(Some(1), Some(3)),
        Cup(Some(3), Some(4)),
        Text("wxyzv".into()),
        Desig(0, true),
        Text("q".into()),
        Desig(0, false),
        Cha(Some(2)),
        Vpa(Some(2)),
        Hts,
        Tbc(Some(3)),
        Ed(Some(1)),
        Cr,
        Decaln,
    ]
}

/// replay helper: re-run the sweep, true if it still finds a violation
pub fn mode_number_replay(ctx: &Ctx, sys: &LockStep) -> bool {
    let mut rep = Report::new();
    mode_number_sweep(ctx, &mut rep, sys);
    rep.violations > 0
}
