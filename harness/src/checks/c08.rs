//! C08 — SGR attributes and colours reach the printed cells unchanged.

use crate::lockstep::{lock_apply, LSt, LockStep, Outcome};
use crate::ops::Cmd::*;
use crate::ops::*;
use crate::refterm::RefTerm;
use crate::report::*;
use rayon::prelude::*;
use serde_json::{json, Value};

fn wrap(sgr: Cmd, sp: Sp) -> Op {
    // apply the SGR, then print a character and blank a cell with the resulting pen
    let text = format!("{}\rx\x1b[K", sgr.spell(sp));
    Op {
        kind: Kind::Feed,
        cmd: Seq(vec![sgr, Cr, Text("x".into()), El(None)]),
        text,
        levels: 0,
    }
}

fn colour_forms(ground: u32, quick: bool) -> Vec<Cmd> {
    let mut v = vec![];
    let idx: &[u32] = if quick { &[255] } else { &[0, 7, 8, 15, 16, 255] };
    let rgbs: &[(u32, u32, u32)] = if quick { &[(1, 2, 3)] } else { &[(0, 0, 0), (1, 2, 3), (255, 255, 255)] };
    for &i in idx {
        v.push(Sgr(vec![vec![Some(ground)], vec![Some(5)], vec![Some(i)]]));
        v.push(Sgr(vec![vec![Some(ground), Some(5), Some(i)]]));
    }
    for &(r, g, b) in rgbs {
        v.push(Sgr(vec![vec![Some(ground)], vec![Some(2)], vec![Some(r)], vec![Some(g)], vec![Some(b)]]));
        v.push(Sgr(vec![vec![Some(ground), Some(2), Some(r), Some(g), Some(b)]]));
        v.push(Sgr(vec![vec![Some(ground), Some(2), None, Some(r), Some(g), Some(b)]]));
    }
    v
}

fn alpha_for(quick: bool) -> Vec<Op> {
    let mut v: Vec<Op> = vec![];
    let mut codes: Vec<u32> = vec![0, 1, 2, 21, 22, 3, 4, 5, 7, 9, 23, 24, 25, 27, 29, 39, 49];
    if quick {
        codes.extend([30, 31, 37, 90, 97, 40, 42, 47, 100, 107]);
    } else {
        codes.extend(30..=37);
        codes.extend(90..=97);
        codes.extend(40..=47);
        codes.extend(100..=107);
    }
    v.push(wrap(Sgr(vec![]), SP7)); // CSI m
    for code in codes {
        v.push(wrap(sgr1(code), SP7));
    }
    v.push(wrap(sgr1(1), SP8));
    v.push(wrap(sgr1(0), SP8));
    for g in [38, 48] {
        for cmd in colour_forms(g, quick) {
            v.push(wrap(cmd, SP7));
        }
    }
    // unknown codes must not disturb anything
    for u in [6u32, 8, 10, 26, 50, 98, 108, 1000] {
        v.push(wrap(sgr1(u), SP7));
    }
    v.push(wrap(Sgr(vec![vec![Some(4), Some(3)]]), SP7));
    // a `:` form whose selector is 2 or 5 only modulo 256 / 65536 is no colour form
    v.push(wrap(Sgr(vec![vec![Some(38), Some(261), Some(7)]]), SP7));
    v.push(wrap(Sgr(vec![vec![Some(48), Some(258), Some(1), Some(2), Some(3)]]), SP7));
    v.push(wrap(Sgr(vec![vec![Some(38), Some(65285), Some(9)]]), SP7));
    // sequences that end in `m` but are not SGR (a private marker or an intermediate makes
    // them something else, which this terminal does not implement): the pen stays as it is
    let mut foreign: Vec<&str> = vec!["\x1b[>4;2m", "\x1b[?4m", "\x1b[=1m", "\x1b[<31m", "\x1b[>m", "\x1b[>4;0m", "\u{9b}?1;31m", "\x1b[1 m", "\x1b[31$m", "\u{9b}0!m"];
    // ... and sequences of other terminals that push / pop / save / restore / select things
    foreign.extend(crate::alphabets::KNOWN_FOREIGN.iter().copied().filter(|s| s.starts_with("\x1b[#") || s.starts_with("\x1b[?7") || s.contains("\"p") || s.contains("\"q")));
    for s in foreign {
        v.push(Op {
            kind: Kind::Feed,
            cmd: Seq(vec![Inert(s.to_string()), Cr, Text("x".into()), El(None)]),
            text: format!("{}\rx\x1b[K", s),
            levels: 0,
        });
    }
    v
}

fn alpha_q(_cfg: &Cfg) -> Vec<Op> {
    alpha_for(true)
}
fn alpha_t(_cfg: &Cfg) -> Vec<Op> {
    alpha_for(false)
}

macro_rules! parts {
    ($tier:expr, $sys:expr) => {{
        let tier: Tier = $tier;
        Part {
            name: "pen-fold-to-fixpoint",
            sys: $sys,
            cfgs: vec![Cfg::new(2, 1, Some(0))],
            alphabet: match tier {
                Tier::Quick => &alpha_q,
                Tier::Thorough => &alpha_t,
            },
            depth: tier.pick(30, 60),
            seconds: tier.pick(25.0, 3000.0),
            validated: true,
            nontrivial: Some("lockstep_transitions"),
        }
    }};
}

static SYS: LockStep = LockStep { property: "C08", probes: false, seed: None, via_feed: false, merged: true };

/// every way of blanking cells must use the current pen
fn blank_seed(cfg: &Cfg) -> Vec<Cmd> {
    let n = cfg.cols * cfg.rows;
    let s: String = (0..n).map(|i| char::from_u32('a' as u32 + (i % 26) as u32).unwrap()).collect();
    vec![Text(s), Cup(Some(1), Some(1))]
}
static SYS_BLANK: LockStep = LockStep { property: "C08", probes: false, seed: Some(&blank_seed), via_feed: false, merged: false };

fn alpha_blank(cfg: &Cfg) -> Vec<Op> {
    let rows = cfg.rows as u32;
    let mut v: Vec<Op> = vec![
        c(sgr1(41)),
        c(Sgr(vec![vec![Some(1)], vec![Some(38)], vec![Some(5)], vec![Some(200)], vec![Some(48), Some(2), Some(1), Some(2), Some(3)]])),
        c(sgr1(0)),
        c(El(None)),
        c(El(Some(1))),
        c(El(Some(2))),
        c(Ed(None)),
        c(Ed(Some(1))),
        c(Ed(Some(2))),
        c(Ech(Some(1))),
        c(Ich(Some(1))),
        c(Dch(Some(1))),
        c(Il(None)),
        c(Dl(None)),
        c(Su(None)),
        c(Sd(None)),
        c(Su(Some(2))),
        c(Lf),
        c(Ri),
        c(Nel),
        c(Decstbm(Some(1), Some(rows.saturating_sub(1).max(2)))),
        c(Decstbm(Some(2), Some(rows))),
        c(Decstbm(None, None)),
        c(Cup(None, None)),
        c(Cup(Some(99), Some(99))),
        c(Cup(Some(2), Some(2))),
        c(DecSet(vec![1047])),
        c(DecRst(vec![1047])),
        c(DecSet(vec![1049])),
        t("yz"),
        // every way of PRINTING a cell: repeated, double-width, inserted, translated, zero-width
        c(Rep(None)),
        c(Rep(Some(2))),
        t("漢"),
        c(Seq(vec![Sm(vec![4]), Text("i".into()), Rm(vec![4])])),
        c(Seq(vec![Desig(0, true), Text("q".into()), Desig(0, false)])),
        c(Cub(Some(1))),
    ];
    v.push(Op::resize(cfg.cols, cfg.rows + 1));
    v
}

fn rep_set() -> Vec<Vec<Vec<Option<u32>>>> {
    // 24 representative parameters (each a list of tokens)
    let one = |v: u32| vec![vec![Some(v)]];
    let mut s = vec![
        vec![vec![None]],
        one(0),
        one(1),
        one(2),
        one(22),
        one(3),
        one(23),
        one(4),
        one(7),
        one(27),
        one(9),
        one(5),
        one(31),
        one(39),
        one(44),
        one(49),
        one(93),
        one(106),
        vec![vec![Some(38)], vec![Some(5)], vec![Some(200)]],
        vec![vec![Some(38), Some(5), Some(17)]],
        vec![vec![Some(48)], vec![Some(2)], vec![Some(9)], vec![Some(8)], vec![Some(7)]],
        vec![vec![Some(48), Some(2), None, Some(1), Some(2), Some(3)]],
        one(26),
        one(38),
    ];
    s.truncate(24);
    s
}

fn run_sgr(seqs: &[Vec<Vec<Option<u32>>>], c1: bool) -> Result<(), String> {
    run_sgr_pre("", seqs, c1)
}

/// `pre` is fed before every SGR: input that dispatches nothing (a cancelled,
/// ignored or unfinished sequence, a control string) and so must not reach the pen
fn run_sgr_pre(pre: &str, seqs: &[Vec<Vec<Option<u32>>>], c1: bool) -> Result<(), String> {
    match crate::engine::guarded(|| run_sgr_inner(pre, seqs, c1)) {
        Ok(r) => r,
        Err(p) => Err(format!("panic: {}", p)),
    }
}

fn run_sgr_inner(pre: &str, seqs: &[Vec<Vec<Option<u32>>>], c1: bool) -> Result<(), String> {
    // feed each SGR in lock-step, then print + erase and compare cells
    let cfg = Cfg::new(2, 1, Some(0));
    let mut st = LSt { vt: cfg.build(), model: RefTerm::new(2, 1), dead: false, twins: vec![] };
    st.model.no_scrollback = true;
    for toks in seqs {
        if !pre.is_empty() {
            match lock_apply(&mut st, &Op::new(Inert(pre.to_string()))) {
                Outcome::Ok => {}
                Outcome::Unspecified(w) => return Err(format!("unexpectedly unspecified: {}", w)),
                Outcome::Mismatch(_, w) => return Err(format!("after the non-dispatching input {}: {}", esc(pre), w)),
            }
        }
        let op = Op::sp(Sgr(toks.clone()), if c1 { SP8 } else { SP7 });
        match lock_apply(&mut st, &op) {
            Outcome::Ok => {}
            // a malformed colour form (e.g. 38;2 without its components): nothing to compare
            Outcome::Unspecified(_) => return Ok(()),
            Outcome::Mismatch(_, w) => return Err(w),
        }
    }
    for cmd in [Cr, Text("x".into()), El(None)] {
        match lock_apply(&mut st, &Op::new(cmd)) {
            Outcome::Ok => {}
            Outcome::Unspecified(w) => return Err(format!("unexpectedly unspecified: {}", w)),
            Outcome::Mismatch(_, w) => return Err(w),
        }
    }
    Ok(())
}

fn combos(ctx: &Ctx, rep: &mut Report) {
    let set = rep_set();
    let n = set.len();
    let mut cases: Vec<(usize, usize, usize)> = vec![];
    for a in 0..n {
        for b in 0..n {
            cases.push((a, b, usize::MAX));
            let cs: Vec<usize> = match ctx.tier {
                Tier::Quick => (0..n).step_by(3).collect(),
                Tier::Thorough => (0..n).collect(),
            };
            for c in cs {
                cases.push((a, b, c));
            }
        }
    }
    let bad: Vec<((usize, usize, usize), String)> = cases
        .par_iter()
        .filter_map(|&(a, b, c)| {
            let mut parts = vec![set[a].clone(), set[b].clone()];
            if c != usize::MAX {
                parts.push(set[c].clone());
            }
            // one sequence holding all parameters
            let joined: Vec<Vec<Option<u32>>> = parts.iter().flatten().cloned().collect();
            for c1 in [false, true] {
                if let Err(e) = run_sgr(&[joined.clone()], c1) {
                    return Some(((a, b, c), format!("combined {:?}: {}", joined, e)));
                }
                if let Err(e) = run_sgr(&parts, c1) {
                    return Some(((a, b, c), format!("separate {:?}: {}", parts, e)));
                }
            }
            None
        })
        .collect();
    rep.evaluations += cases.len() as u64 * 4;
    rep.traces_validated += cases.len() as u64 * 4;
    rep.transitions += cases.len() as u64 * 4;
    rep.parts.push(json!({"part":"parameter-combinations","representatives":n,"cases":cases.len(),"runs":cases.len()*4,"violating":bad.len()}));
    println!("part parameter-combinations: {} cases, {} violating", cases.len(), bad.len());
    for (k, e) in bad.iter().take(3) {
        emit_violation(ctx, rep, "C08", json!({"part":"parameter-combinations","case":[k.0,k.1,if k.2==usize::MAX {-1} else {k.2 as i64}],"oracle":"sgr-fold","observed":e}));
    }
    if bad.len() > 3 {
        rep.violations += bad.len() as u64 - 3;
    }
}

/// Input that collects parameters, a private marker or an intermediate and then ends
/// without dispatching anything (cancelled by CAN/SUB/ESC/C1, driven into the ignore
/// state, cut short by the next introducer, or a control string with a header).
pub const ABORTED: &[&str] = &[
    "\x1b[3\x18",
    "\x1b[38;5;1\x1a",
    "\x1b[4;7<m",
    "\x1b[1;2:3?m",
    "\x1b[38;5;1",
    "\x1b[1;2;3;4;5;6;7;8;9;10;11;12;13;14;15;16;17;18",
    "\x1b[0:7",
    "\x1b[?4",
    "\x1b[5$",
    "\u{9b}7\u{9c}",
    "\u{9b}4;3\u{81}",
    "\x1bP1;4q\u{9c}",
    "\x1bP1;4qxy\x1b\\",
    "\u{90}7;9$qm\u{9c}",
    "\x1b]4;1;red\x07",
    "\x1b]1;3\u{9c}",
    "\x1b_31m\u{9c}",
    "\x1b(",
];

/// every representative SGR (alone, and pairs in one sequence) directly after
/// each aborted input, 7- and 8-bit introducer: the pen folds only the SGR's own
/// parameters
fn after_aborted(ctx: &Ctx, rep: &mut Report) {
    let set = rep_set();
    let mut cases: Vec<(usize, Vec<Vec<Option<u32>>>)> = vec![];
    for (pi, _) in ABORTED.iter().enumerate() {
        for a in &set {
            cases.push((pi, a.clone()));
            let bs: Vec<&Vec<Vec<Option<u32>>>> = match ctx.tier {
                Tier::Quick => set.iter().step_by(4).collect(),
                Tier::Thorough => set.iter().collect(),
            };
            for b in bs {
                cases.push((pi, a.iter().chain(b.iter()).cloned().collect()));
            }
        }
    }
    let bad: Vec<(usize, String)> = cases
        .par_iter()
        .filter_map(|(pi, toks)| {
            for c1 in [false, true] {
                // once from the default pen, once from a loaded pen
                for lead in [vec![], vec![vec![vec![Some(1u32)], vec![Some(4)], vec![Some(33)]]]] {
                    let mut seqs = lead.clone();
                    seqs.push(toks.clone());
                    if let Err(e) = run_sgr_pre(ABORTED[*pi], &seqs, c1) {
                        return Some((*pi, format!("{} then SGR {:?} ({}-bit CSI): {}", esc(ABORTED[*pi]), toks, if c1 { 8 } else { 7 }, e)));
                    }
                }
            }
            None
        })
        .collect();
    rep.evaluations += cases.len() as u64 * 4;
    rep.traces_validated += cases.len() as u64 * 4;
    rep.transitions += cases.len() as u64 * 4;
    rep.parts.push(json!({"part":"after-aborted-sequences","aborted_inputs":ABORTED.len(),"cases":cases.len(),"runs":cases.len()*4,"violating":bad.len()}));
    println!("part after-aborted-sequences: {} cases, {} violating", cases.len(), bad.len());
    for (pi, e) in bad.iter().take(3) {
        emit_violation(ctx, rep, "C08", json!({"part":"after-aborted-sequences","aborted":esc(ABORTED[*pi]),"oracle":"sgr-fold","observed":e}));
    }
    if bad.len() > 3 {
        rep.violations += bad.len() as u64 - 3;
    }
}

/// EVERY parameter value 0..=65535, alone and between two neighbours, from the default and
/// from a loaded pen: implemented codes fold, all others are skipped without a trace
fn every_value(ctx: &Ctx, rep: &mut Report) {
    let vals: Vec<u32> = (0..=65535u32).collect();
    let bad: Vec<(u32, String)> = vals
        .par_iter()
        .filter_map(|&v| {
            // (38 and 48 introduce colour forms: alone they are covered by `long-sequences`)
            let loaded = vec![vec![Some(1u32)], vec![Some(4)], vec![Some(33)], vec![Some(45)]];
            let alone = vec![vec![Some(v)]];
            let between = vec![vec![Some(3u32)], vec![Some(v)], vec![Some(9)]];
            // what FOLLOWS an unknown value is not its argument: `v;5;1` is v, blink, bold
            let before5 = vec![vec![Some(v)], vec![Some(5)], vec![Some(1)]];
            let before2 = vec![vec![Some(4u32)], vec![Some(v)], vec![Some(2)], vec![Some(9)], vec![Some(3)], vec![Some(7)], vec![Some(31)]];
            for seqs in [vec![alone.clone()], vec![loaded.clone(), alone.clone()], vec![loaded.clone(), between.clone()], vec![before5.clone()], vec![loaded.clone(), before2.clone()]] {
                if (v == 38 || v == 48) && seqs.last().map(|s| s.len() >= 3) == Some(true) {
                    continue;
                }
                for c1 in [false, true] {
                    if let Err(e) = run_sgr(&seqs, c1) {
                        return Some((v, format!("SGR {:?}: {}", seqs.last().unwrap(), e)));
                    }
                }
            }
            None
        })
        .collect();
    let runs = vals.len() as u64 * 10;
    rep.evaluations += runs;
    rep.traces_validated += runs;
    rep.transitions += runs;
    rep.parts.push(json!({"part":"every-parameter-value","values":vals.len(),"runs":runs,"violating":bad.len()}));
    println!("part every-parameter-value: {} values, {} violating", vals.len(), bad.len());
    for (v, e) in bad.iter().take(3) {
        emit_violation(ctx, rep, "C08", json!({"part":"every-parameter-value","value":v,"oracle":"sgr-fold","observed":e}));
    }
    if bad.len() > 3 {
        rep.violations += bad.len() as u64 - 3;
    }
}

/// long sequences (17..32 parameters in ONE sequence) and lone 38/48
fn long_sequences(ctx: &Ctx, rep: &mut Report) {
    let one = |v: u32| vec![Some(v)];
    let full_pen: Vec<Vec<Option<u32>>> = [0u32, 1, 3, 4, 5, 7, 9, 38, 2, 10, 20, 30, 48, 2, 40, 50, 60].iter().map(|v| one(*v)).collect();
    let mut cases: Vec<Vec<Vec<Option<u32>>>> = vec![full_pen.clone()];
    for extra in [vec![one(21)], vec![one(6), one(23), one(8)], vec![one(24); 15]] {
        let mut c = full_pen.clone();
        c.extend(extra);
        c.truncate(32);
        cases.push(c);
    }
    cases.push((0..32).map(|i| one([1u32, 3, 4, 5, 7, 9, 22, 23][i % 8])).collect());
    for lone in [38u32, 48] {
        for next in [0u32, 1, 4, 9, 32, 41, 49, 38, 48] {
            cases.push(vec![one(7), one(lone), one(next), one(3)]);
            cases.push(vec![one(lone), one(next)]);
        }
        cases.push(vec![one(1), one(lone)]);
        cases.push(vec![one(lone), vec![Some(48), Some(5), Some(1)], one(4)]);
    }
    let mut n = 0u64;
    for c in &cases {
        for c1 in [false, true] {
            n += 1;
            if let Err(e) = run_sgr(&[vec![vec![Some(31)], vec![Some(1)]], c.clone()], c1) {
                emit_violation(ctx, rep, "C08", json!({"part":"long-sequences","tokens":format!("{:?}", c),"oracle":"sgr-fold","observed":e}));
                return;
            }
        }
    }
    rep.evaluations += n;
    rep.traces_validated += n;
    rep.parts.push(json!({"part":"long-sequences","cases":n}));
}

fn all_indices(ctx: &Ctx, rep: &mut Report) {
    let mut n = 0u64;
    for idx in 0u32..=255 {
        for g in [38u32, 48] {
            for form in 0..2 {
                let toks = if form == 0 {
                    vec![vec![Some(g)], vec![Some(5)], vec![Some(idx)]]
                } else {
                    vec![vec![Some(g), Some(5), Some(idx)]]
                };
                n += 1;
                if let Err(e) = run_sgr(&[vec![vec![Some(1)]], toks.clone()], false) {
                    emit_violation(ctx, rep, "C08", json!({"part":"all-indices","tokens":format!("{:?}", toks),"oracle":"indexed-colour","observed":e}));
                    return;
                }
            }
        }
    }
    rep.evaluations += n;
    rep.traces_validated += n;
    rep.parts.push(json!({"part":"all-indices","cases":n}));
}

/// "the printed cell reports exactly that pen" - also when the cell already held the same
/// character under another pen: every ordered pair of pens from a base list, and for every
/// palette index 16..=255 every ordered pair among its indexed and its direct-colour spelling
/// (the xterm cube / grey ramp value), foreground and background, for a letter and a typed
/// blank. Differential: the repainted cell must be the cell of a terminal that only ever saw
/// the second pen.
fn repaint(ctx: &Ctx, rep: &mut Report) {
    let base = ["", "1", "2", "3", "4", "5", "7", "9", "31", "91", "38;5;1", "38;5;9", "38;2;205;0;0", "38;2;255;0;0", "38;2;0;0;0", "41", "101", "48;5;1", "48;2;205;0;0", "48;2;0;0;0", "38;5;0", "48;5;0", "38;5;15", "38;2;255;255;255"];
    let cube = |n: u32| -> (u32, u32, u32) {
        if n >= 232 {
            let v = 8 + 10 * (n - 232);
            (v, v, v)
        } else {
            let i = n - 16;
            let l = [0u32, 95, 135, 175, 215, 255];
            (l[(i / 36) as usize], l[((i / 6) % 6) as usize], l[(i % 6) as usize])
        }
    };
    let mut pairs: Vec<(String, String)> = vec![];
    for a in base {
        for b in base {
            pairs.push((a.to_string(), b.to_string()));
        }
    }
    for n in 16u32..=255 {
        let (r, g, b) = cube(n);
        let v = [format!("38;5;{}", n), format!("38;2;{};{};{}", r, g, b), format!("48;5;{}", n), format!("48;2;{};{};{}", r, g, b), String::new(), format!("38:5:{}", n), format!("38:2:{}:{}:{}", r, g, b)];
        for a in &v {
            for b2 in &v {
                pairs.push((a.clone(), b2.clone()));
            }
        }
    }
    let bad: Vec<String> = pairs
        .par_iter()
        .filter_map(|(a, b)| {
            let r = crate::engine::guarded(|| {
                for ch in ["X", " ", "\u{6f22}"] {
                    for mid in ["\r", "\x1b[1;1H", "\x08\x08"] {
                        let mut vt = build_vt(4, 2, None);
                        let _ = vt.feed_str(&format!("\x1b[0;{}m{}{}\x1b[0;{}m{}", a, ch, mid, b, ch));
                        let mut w = build_vt(4, 2, None);
                        let _ = w.feed_str(&format!("\x1b[0;{}m{}", b, ch));
                        let (x, y) = (crate::obs::obs(&vt), crate::obs::obs(&w));
                        if x.rows != y.rows {
                            return Some(format!("{:?} printed under SGR {} and again in the same cell under SGR {}: row 0 is {:?}; printed under SGR {} alone: {:?}", ch, a, b, x.rows[0], b, y.rows[0]));
                        }
                    }
                }
                None
            });
            match r {
                Ok(x) => x,
                Err(m) => Some(format!("SGR {} then SGR {}: panic: {}", a, b, m)),
            }
        })
        .collect();
    let n = pairs.len() as u64 * 9;
    rep.evaluations += n;
    rep.traces_validated += n;
    rep.parts.push(json!({"part":"repaint-under-another-pen","pen_pairs":pairs.len(),"runs":n,"violating":bad.len()}));
    println!("part repaint-under-another-pen: {} ordered pen pairs x 3 characters x 3 ways back, {} violating", pairs.len(), bad.len());
    if let Some(d) = bad.first() {
        emit_violation(ctx, rep, "C08", json!({"part":"repaint-under-another-pen","oracle":"printed-cell-pen","observed":d}));
        rep.violations += bad.len() as u64 - 1;
    }
}

fn blank_part(tier: Tier) -> Part<'static, LockStep> {
    Part {
        name: "every-way-of-blanking",
        sys: &SYS_BLANK,
        cfgs: match tier {
            Tier::Quick => cfgs(&[(2, 3), (2, 4)], &[None]),
            Tier::Thorough => cfgs(&[(2, 2), (2, 3), (3, 3), (2, 4)], &[None, Some(0)]),
        },
        alphabet: &alpha_blank,
        depth: tier.pick(4, 5),
        seconds: tier.pick(25.0, 1800.0),
        validated: true,
        nontrivial: Some("lockstep_transitions"),
    }
}

pub fn run(ctx: &Ctx) -> Report {
    let mut rep = Report::new();
    let p = parts!(ctx.tier, &SYS);
    run_part(ctx, &mut rep, &p);
    run_part(ctx, &mut rep, &blank_part(ctx.tier));
    combos(ctx, &mut rep);
    all_indices(ctx, &mut rep);
    repaint(ctx, &mut rep);
    long_sequences(ctx, &mut rep);
    after_aborted(ctx, &mut rep);
    every_value(ctx, &mut rep);
    super::sweep::mode_number_sweep(ctx, &mut rep, &SYS);
    rep.rule = "(a) lock-step BFS to FIXPOINT over the pen space: every implemented SGR code as its own sequence (both colour encodings, 7/8-bit CSI, unknown codes), each followed by CR, a printed char and EL; the hidden pen and both cells (all nine accessors) are compared for every reachable prior pen; (b) every ordered pair and triple from 24 representative parameters inside one sequence and as separate sequences, 7- and 8-bit; (c) all 256 indices x fg/bg x ';' and ':' forms; (d) lock-step BFS from a letter-filled screen over every way of blanking cells (EL/ED/ECH/ICH/DCH/IL/DL/SU/SD, LF/RI/NEL and wrap scrolls in top-anchored, inner and full regions, alternate-screen entry) under three pens: a vacated blank must carry the current pen; (e) every representative parameter and pair directly after each of 18 inputs that collect parameters but dispatch nothing (cancelled, ignored, unfinished sequences, control strings with headers), 7- and 8-bit CSI, from the default and a loaded pen; (f) every parameter value 0..=65535 alone and between two neighbours; (g) every private mode number 0..=65535 set and reset from a loaded state: none but the restoring ones may touch the pen".into();
    rep.assumptions = vec!["malformed colour forms and components > 255 are unspecified and not generated".into()];
    rep
}

pub fn replay(ctx: &Ctx, v: &Value) -> bool {
    match v["part"].as_str().unwrap_or("") {
        "every-mode-number" => super::sweep::mode_number_replay(ctx, &SYS),
        "parameter-combinations" | "all-indices" | "long-sequences" | "after-aborted-sequences" | "every-parameter-value" | "repaint-under-another-pen" => {
            let mut rep = Report::new();
            let c2 = Ctx { id: ctx.id.clone(), tier: if v["tier"] == "thorough" { Tier::Thorough } else { Tier::Quick }, seed: 0, start: ctx.start, known: ctx.known.clone(), replay_dir: ctx.replay_dir.clone() };
            combos(&c2, &mut rep);
            all_indices(&c2, &mut rep);
            repaint(&c2, &mut rep);
            long_sequences(&c2, &mut rep);
            after_aborted(&c2, &mut rep);
            every_value(&c2, &mut rep);
            rep.violations > 0
        }
        "every-way-of-blanking" => {
            let tier = if v["tier"] == "thorough" { Tier::Thorough } else { Tier::Quick };
            replay_part(ctx, &blank_part(tier), v)
        }
        _ => {
            let tier = if v["tier"] == "thorough" { Tier::Thorough } else { Tier::Quick };
            let p = parts!(tier, &SYS);
            replay_part(ctx, &p, v)
        }
    }
}
