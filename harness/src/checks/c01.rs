//! C01 — total on every input: no panic, no hang, bounded work.

use crate::alloc;
use crate::alphabets::*;
use crate::engine::{guarded, Out, System};
use crate::obs::fingerprint;
use crate::ops::*;
use crate::report::*;
use avt::util::TextCollector;
use avt::Vt;
use rayon::prelude::*;
use serde_json::{json, Value};
use std::time::Instant;

/// explicit repeat counts written in an input (sum of all decimal numbers,
/// each capped at 65535 — the parser truncates to 16 bits)
fn requested_work(s: &str) -> u64 {
    let mut total = s.chars().count() as u64;
    let mut cur: u64 = 0;
    let mut in_num = false;
    for ch in s.chars() {
        if let Some(d) = ch.to_digit(10) {
            cur = (cur * 10 + d as u64).min(1 << 40);
            in_num = true;
        } else if in_num {
            total += cur.min(65535);
            cur = 0;
            in_num = false;
        }
    }
    total + cur.min(65535)
}

fn envelope(work: u64, cfg_cells: u64) -> u64 {
    (1 << 20) + 65536 * work + 4096 * cfg_cells
}

/// Exercise every read accessor; returns a checksum so nothing is optimised away.
fn read_everything(vt: &Vt) -> usize {
    let mut n = 0;
    n += vt.dump().len();
    n += vt.text().len();
    n += vt.lines().len();
    n += vt.view().len();
    let (_, rows) = vt.size();
    for i in 0..rows {
        let l = vt.line(i);
        n += l.len();
        n += l.chunks(|a, b| a.pen() != b.pen()).count();
        n += l.text().len();
        n += l.chars().count();
        for c in l.cells() {
            n += c.width();
            n += c.is_default() as usize;
        }
    }
    let c = vt.cursor();
    n += c.col + c.row;
    n += vt.cursor_key_app_mode() as usize;
    n
}

pub struct Sys {
    pub extreme: Vec<Op>,
    /// run the extreme layer at states up to this depth
    pub extreme_depth: usize,
    pub second: Vec<Op>,
}

fn cells(vt: &Vt) -> u64 {
    let (c, r) = vt.size();
    (c * r) as u64 + vt.lines().len() as u64 * c as u64
}

fn judged_apply(vt: &mut Vt, op: &Op, out: &mut Out) {
    let pre_cells = cells(vt);
    let a0 = alloc::bytes();
    let t0 = Instant::now();
    let _ = apply(vt, op);
    let dt = t0.elapsed();
    let used = alloc::bytes().wrapping_sub(a0);
    let (nc, nr) = match op.cmd {
        Cmd::Resize(c, r) => (c as u64, r as u64),
        _ => (0, 0),
    };
    let work = requested_work(&op.text);
    let env = envelope(work, pre_cells * (nc + 1) + nc * nr);
    out.count("calls_checked");
    if dt.as_secs_f64() > 5.0 {
        // wall time can be inflated by a loaded machine: only the CPU-time watchdog
        // and a reproducible slowness count. (The caller re-runs slow calls.)
        out.count("slow_calls_seen");
    }
    if used > env {
        out.violate(
            "C01",
            "allocation-envelope",
            format!(
                "one call allocated {} bytes; envelope for its requested work ({}) is {}",
                used, work, env
            ),
        );
    }
}

impl System for Sys {
    type St = Vt;
    fn init(&self, cfg: &Cfg) -> Vt {
        cfg.build()
    }
    fn step(&self, _cfg: &Cfg, vt: &mut Vt, op: &Op, out: Option<&mut Out>) {
        match out {
            None => {
                let _ = apply(vt, op);
            }
            Some(out) => {
                judged_apply(vt, op, out);
                out.obs_hash = Some(read_everything(vt) as u64);
            }
        }
    }
    fn key(&self, vt: &Vt) -> u128 {
        fingerprint(vt)
    }
    fn on_state(
        &self,
        cfg: &Cfg,
        hist: &[&Op],
        vt: &mut Vt,
        rebuild: &dyn Fn() -> Vt,
        out: &mut Out,
    ) {
        // (d) accessors + the same history through TextCollector
        read_everything(vt);
        {
            let mut tc = TextCollector::new(cfg.build());
            let mut n = 0;
            for op in hist {
                match op.cmd {
                    Cmd::Resize(c, r) => n += tc.resize(c as u16, r as u16).count(),
                    _ => n += tc.feed_str(&op.text).count(),
                }
            }
            n += tc.flush().len();
            out.add("text_collector_lines", n as u64);
        }
        // (b) extreme layer + one more ordinary step
        if hist.len() <= self.extreme_depth {
            for e in &self.extreme {
                crate::engine::watch_note(&e.text);
                let mut v = rebuild();
                let mut o = Out::default();
                let r = guarded(|| {
                    judged_apply(&mut v, e, &mut o);
                    read_everything(&v);
                });
                out.count("extreme_calls");
                let mut failed = false;
                if let Err(m) = r {
                    out.violate("C01", "panic", format!("after extreme input {}: {}", e.describe(), m));
                    failed = true;
                }
                for x in o.violations {
                    out.violate("C01", &x.oracle, format!("extreme input {}: {}", e.describe(), x.detail));
                    failed = true;
                }
                if failed {
                    return;
                }
                for s in &self.second {
                    let r = guarded(|| {
                        let mut v2 = rebuild();
                        let _ = apply(&mut v2, e);
                        let _ = apply(&mut v2, s);
                        read_everything(&v2);
                    });
                    out.count("extreme_followup_calls");
                    if let Err(m) = r {
                        out.violate(
                            "C01",
                            "panic",
                            format!("extreme input {} then {}: {}", e.describe(), s.describe(), m),
                        );
                        return;
                    }
                }
            }
        }
    }
}

fn alpha(cfg: &Cfg) -> Vec<Op> {
    let mut v = a_all(cfg, S4, true);
    v.push(t("bcd").kind(Kind::FeedChars));
    v.push(c(lfs(3)).kind(Kind::FeedChars));
    v.push(c(lfs(3)).kind(Kind::FeedDrop));
    v.push(c(lfs(3)).kind(Kind::FeedPartial));
    v.push(c(Cmd::Rep(Some(300))));
    v.push(Op::resize(1, 1).kind(Kind::ResizeDrop));
    v.push(Op::resize(17, 2));
    v.push(Op::resize(2, 9));
    v.push(t("bcd").kind(Kind::FeedSplit));
    v.push(c(lfs(12)));
    v.push(c(lfs(25)));
    v
}

fn second_ops() -> Vec<Op> {
    vec![
        t("ab"),
        c(Cmd::Lf),
        c(Cmd::Ri),
        c(Cmd::Ed(Some(1))),
        c(Cmd::Decrc),
        c(Cmd::DecRst(vec![1049])),
        Op::resize(1, 1),
        Op::resize(3, 3),
        Op::raw("\x1b[300b"),
    ]
}

// ---------- (c) parser-state x all scalars sweep through Vt ----------

const PREFIXES: &[(&str, &str)] = &[
    ("Ground", ""),
    ("Ground", "ab"),
    ("Escape", "\x1b"),
    ("EscapeIntermediate", "\x1b("),
    ("EscapeIntermediate", "\x1b# "),
    ("CsiEntry", "\x1b["),
    ("CsiEntry", "\u{9b}"),
    ("CsiParam", "\x1b[5"),
    ("CsiParam", "\x1b[?1;2"),
    ("CsiParam", "\x1b[38:2:1"),
    ("CsiParam", "\x1b[1;2;3;4;5;6;7;8;9;10;11;12;13;14;15;16;17;18;19;20;21;22;23;24;25;26;27;28;29;30;31;32;33;99999"),
    ("CsiIntermediate", "\x1b[5 "),
    ("CsiIntermediate", "\x1b[!"),
    ("CsiIgnore", "\x1b[:"),
    ("CsiIgnore", "\x1b[5<"),
    ("DcsEntry", "\x1bP"),
    ("DcsParam", "\x1bP1;2"),
    ("DcsIntermediate", "\x1bP1$"),
    ("DcsPassthrough", "\x1bPqabc"),
    ("DcsIgnore", "\x1bP:"),
    ("OscString", "\x1b]0;title"),
    ("SosPmApcString", "\x1bXabc"),
    ("SosPmApcString", "\u{9f}"),
];

fn scalars(tier: Tier) -> Vec<u32> {
    let mut v = vec![];
    match tier {
        Tier::Thorough => {
            for cp in 0..=0x10FFFFu32 {
                if char::from_u32(cp).is_some() {
                    v.push(cp);
                }
            }
        }
        Tier::Quick => {
            for cp in 0..0x3000u32 {
                v.push(cp);
            }
            let mut cp = 0x3000u32;
            while cp <= 0x10FFFF {
                if char::from_u32(cp).is_some() {
                    v.push(cp);
                }
                cp += 251;
            }
            for cp in [0xD7FF, 0xE000, 0xFFFD, 0xFFFF, 0x10000, 0x10FFFF] {
                v.push(cp);
            }
        }
    }
    v
}

fn sweep_one(cols: usize, rows: usize, prefix: &str, cp: u32, via_feed: bool) -> Result<usize, String> {
    guarded(|| {
        let ch = char::from_u32(cp).unwrap();
        let mut vt = build_vt(cols, rows, Some(0));
        let _ = vt.feed_str("xy\x1b[2;2r\x1b[?6h");
        let _ = vt.feed_str(prefix);
        if via_feed {
            vt.feed(ch);
        } else {
            let mut b = [0u8; 4];
            let _ = vt.feed_str(ch.encode_utf8(&mut b));
        }
        let _ = vt.feed_str("1;2H\x1b[1;1Hz\n");
        let _ = vt.resize(rows, cols);
        let mut n = vt.dump().len() + vt.text().len();
        // the character as the LAST thing on a row, a row that wraps and one that does not, read
        // by every text reader (text(), TextUnwrapper over lines(), TextCollector's stream and flush)
        let mut tc = TextCollector::new(build_vt(3, 2, Some(0)));
        let body = format!("ab{c}cd{c}\r\n{c}\r\nx{c}{c}\r\n\r\n\r\n", c = ch);
        n += tc.feed_str(&body).count();
        n += tc.resize(2, 2).count();
        n += tc.flush().len();
        let mut v2 = build_vt(3, 2, None);
        let _ = v2.feed_str(&body);
        let mut u = avt::util::TextUnwrapper::new();
        for l in v2.lines() {
            n += u.push(l).map(|s| s.len()).unwrap_or(0);
        }
        n += u.flush().map(|s| s.len()).unwrap_or(0);
        n + v2.text().len() + v2.dump().len()
    })
}

fn sweep(ctx: &Ctx, rep: &mut Report) {
    let sc = scalars(ctx.tier);
    let t0 = Instant::now();
    let mut total: u64 = 0;
    let sizes: &[(usize, usize)] = &[(2, 2), (1, 1)];
    for &(cols, rows) in sizes {
        for (state, prefix) in PREFIXES {
            let bad: Vec<(u32, String)> = sc
                .par_iter()
                .filter_map(|&cp| match sweep_one(cols, rows, prefix, cp, cp % 2 == 0) {
                    Ok(_) => None,
                    Err(m) => Some((cp, m)),
                })
                .collect();
            total += sc.len() as u64;
            if let Some((cp, m)) = bad.first() {
                emit_violation(
                    ctx,
                    rep,
                    "C01",
                    json!({"part":"parser-sweep","cols":cols,"rows":rows,"state":state,"prefix":esc(prefix),"prefix_raw":prefix,"scalar":cp,"oracle":"panic","observed":m}),
                );
            }
        }
    }
    rep.evaluations += total;
    rep.transitions += total;
    rep.count("parser_sweep_feeds", total);
    rep.parts.push(json!({"part":"parser-sweep","prefixes":PREFIXES.len(),"scalars":sc.len(),"sizes":sizes.len(),
        "feeds":total,"all_scalars": ctx.tier==Tier::Thorough,"wall_s":t0.elapsed().as_secs_f64()}));
    println!("part parser-sweep: {} feeds ({:.1}s)", total, t0.elapsed().as_secs_f64());
}

macro_rules! parts {
    ($tier:expr, $sys:expr) => {{
        let tier: Tier = $tier;
        Part {
            name: "structural+extreme",
            sys: $sys,
            cfgs: match tier {
                Tier::Quick => {
                    let mut v = cfgs(&[(1, 1), (2, 1), (1, 2), (2, 2), (3, 2), (4, 3)], &[None, Some(0), Some(1)]);
                    // limits where the soft and the hard limit differ
                    v.push(Cfg::new(2, 2, Some(10)));
                    v.push(Cfg::new(2, 2, Some(20)));
                    v
                }
                Tier::Thorough => cfgs(S4, &[None, Some(0), Some(1), Some(10), Some(20)]),
            },
            alphabet: &alpha,
            depth: tier.pick(3, 4),
            seconds: tier.pick(60.0, 2400.0),
            validated: false,
            nontrivial: None,
        }
    }};
}

fn alpha_deep(cfg: &Cfg) -> Vec<Op> {
    a_altresize(cfg, &[(1, 1), (2, 2), (3, 2), (2, 3), (2, 1)])
}

/// long chains of save / alternate screen / resize / restore / print
fn deep_part<'a>(tier: Tier, sys: &'a Sys) -> Part<'a, Sys> {
    Part {
        name: "alt-resize-save-deep",
        sys,
        cfgs: match tier {
            Tier::Quick => cfgs(&[(3, 2), (2, 2)], &[None, Some(0)]),
            Tier::Thorough => cfgs(&[(3, 2), (2, 2), (1, 2)], &[None, Some(0), Some(2)]),
        },
        alphabet: &alpha_deep,
        depth: tier.pick(6, 7),
        seconds: tier.pick(60.0, 2400.0),
        validated: false,
        nontrivial: None,
    }
}

fn alpha_modes(cfg: &Cfg) -> Vec<Op> {
    super::c11::a_11_deep(cfg)
}

/// origin mode / margins / save-restore / alternate screen / resize chains with
/// every accessor (dump() in particular) called at every state
fn modes_part<'a>(tier: Tier, sys: &'a Sys) -> Part<'a, Sys> {
    Part {
        name: "origin-margins-save-deep",
        sys,
        cfgs: match tier {
            Tier::Quick => cfgs(&[(3, 3), (2, 2)], &[None]),
            Tier::Thorough => cfgs(&[(3, 3), (2, 2), (4, 3), (2, 4)], &[None, Some(0)]),
        },
        alphabet: &alpha_modes,
        depth: tier.pick(5, 7),
        seconds: tier.pick(30.0, 1800.0),
        validated: false,
        nontrivial: None,
    }
}

fn core_part<'a>(tier: Tier, sys: &'a Sys) -> Part<'a, Sys> {
    Part {
        name: "save-alt-resize-core-deep",
        sys,
        cfgs: match tier {
            Tier::Quick => cfgs(&[(3, 3)], &[None]),
            Tier::Thorough => cfgs(&[(3, 3), (2, 2), (4, 2)], &[None, Some(0)]),
        },
        alphabet: &crate::alphabets::a_core_deep,
        depth: tier.pick(10, 13),
        seconds: tier.pick(20.0, 1800.0),
        validated: false,
        nontrivial: None,
    }
}

/// "for every prior history": very MANY calls on one terminal. Anything that counts calls,
/// generations or epochs has to survive more of them than fit in 16 bits (thorough: more
/// than 2^20); every accessor is called along the way.
fn long_call_history(ctx: &Ctx, rep: &mut Report) {
    let n: usize = ctx.tier.pick(70_000, 1_100_000);
    let scripts: Vec<(&str, Box<dyn Fn(&mut avt::Vt, usize) + Sync>)> = vec![
        ("feed_str(\"a\") drained", Box::new(|vt, _| { let _ = vt.feed_str("a").scrollback.count(); })),
        ("feed_str(\"\") dropped", Box::new(|vt, _| { let _ = vt.feed_str(""); })),
        ("resize alternating 4x2 / 5x3", Box::new(|vt, i| { let _ = if i % 2 == 0 { vt.resize(5, 3) } else { vt.resize(4, 2) }; })),
        ("feed_str of one line, then a resize every 7th call", Box::new(|vt, i| { let _ = vt.feed_str("xy\r\n"); if i % 7 == 0 { let _ = vt.resize(4 + i % 3, 2 + i % 2); } })),
        ("screen switches and save / restore", Box::new(|vt, i| { let _ = vt.feed_str(["\x1b[?1049h", "\x1b7", "\x1b[?1049l", "\x1b8", "\x1b[2;3r\x1b[?6h", "\x1b[r\x1b[?6l"][i % 6]); })),
        ("feed() per character", Box::new(|vt, i| { vt.feed(['a', '\n', '\x1b', '[', 'm'][i % 5]); })),
    ];
    use rayon::prelude::*;
    let bad: Vec<String> = scripts
        .par_iter()
        .flat_map(|(name, f)| {
            [None, Some(0usize), Some(10)]
                .into_iter()
                .filter_map(|limit| {
                    let mut at = 0usize;
                    let r = crate::engine::guarded(|| {
                        let mut vt = build_vt(4, 2, limit);
                        for i in 0..n {
                            at = i;
                            f(&mut vt, i);
                            if i % 4096 == 0 || i + 1 == n {
                                let _ = (vt.dump(), vt.text(), vt.cursor(), vt.view().len(), vt.lines().len());
                                if limit.is_none() {
                                    // keep the unlimited buffer small: the count of calls matters here
                                    let _ = vt.feed_str("\x1bc");
                                }
                            }
                        }
                    });
                    r.err().map(|p| format!("{} (limit {:?}): call {} panicked: {}", name, limit, at + 1, p))
                })
                .collect::<Vec<_>>()
        })
        .collect();
    let runs = scripts.len() as u64 * 3;
    rep.evaluations += runs * n as u64;
    rep.transitions += runs * n as u64;
    rep.parts.push(json!({"part":"long-call-history","scripts":scripts.len(),"calls_per_script":n,"limits":3,"violating":bad.len()}));
    println!("part long-call-history: {} scripts x 3 limits x {} calls, {} violating", scripts.len(), n, bad.len());
    if let Some(d) = bad.first() {
        emit_violation(ctx, rep, "C01", json!({"part":"long-call-history","oracle":"panic","observed":d}));
        rep.violations += bad.len() as u64 - 1;
    }
}

/// Deep structures on a small stack, library built UNOPTIMISED (crate /verif/stackcheck,
/// see its header): each case runs in a child process; a child killed by a signal (stack
/// exhaustion aborts, it does not unwind) or exiting non-zero is a call that did not
/// return normally.
fn stack_cases(ctx: &Ctx, rep: &mut Report) {
    let exe = std::env::var("AVTMC_STACKCHECK").unwrap_or_else(|_| "/verif/target-stackcheck/debug/avt-stackcheck".to_string());
    let out = match std::process::Command::new(&exe).arg("all").output() {
        Ok(o) => o,
        Err(e) => {
            rep.harness_error = Some(format!("cannot run {}: {} (./check C01 builds it)", exe, e));
            return;
        }
    };
    let text = String::from_utf8_lossy(&out.stdout).to_string();
    let total = text.lines().filter(|l| l.starts_with("ok ") || l.starts_with("FAIL ")).count() as u64;
    let fails: Vec<&str> = text.lines().filter(|l| l.starts_with("FAIL ")).collect();
    if total == 0 {
        rep.harness_error = Some(format!("{} all: no case ran: {}", exe, String::from_utf8_lossy(&out.stderr)));
        return;
    }
    rep.evaluations += total;
    rep.transitions += total;
    rep.parts.push(json!({"part":"deep-structures-on-a-small-stack","build":"avt at opt-level 0, 2 MiB thread stack, one child process per case","cases":total,"violating":fails.len()}));
    println!("part deep-structures-on-a-small-stack: {} cases in child processes (unoptimised library), {} violating", total, fails.len());
    for f in fails.iter().take(3) {
        let mut it = f.splitn(3, ' ');
        let (_, _, rest) = (it.next(), it.next(), it.next().unwrap_or(""));
        let name = rest.split(" :: ").next().unwrap_or("").to_string();
        emit_violation(ctx, rep, "C01", json!({"part":"deep-structures-on-a-small-stack","case":name,"oracle":"call-does-not-return-normally","observed":f}));
    }
    if fails.len() > 3 {
        rep.violations += fails.len() as u64 - 3;
    }
}

/// Widths around every power of two, one and two rows: everything that can be done at the
/// right edge (the last cell filled, the cursor in the wrap-pending column), tab stops set
/// and cleared there, edits, repeats, width changes by one - three operations deep.
fn alpha_pow2(cfg: &Cfg) -> Vec<Op> {
    use crate::ops::Cmd::*;
    let w = cfg.cols as u32;
    vec![
        c(Seq(vec![Cup(Some(1), Some(w)), Text("x".into())])),
        c(Tbc(None)),
        c(Ctc(Some(2))),
        c(Hts),
        c(Ht),
        c(Cbt(None)),
        c(Cht(Some(3))),
        c(Ich(None)),
        c(Dch(None)),
        c(Ech(Some(2))),
        c(El(None)),
        c(Rep(Some(2))),
        t("ab"),
        c(Cha(Some(w))),
        c(Cub(Some(1))),
        c(Tbc(Some(3))),
        Op::resize(cfg.cols + 1, cfg.rows),
        Op::resize(cfg.cols.max(2) - 1, cfg.rows),
    ]
}

fn pow2_part<'a>(tier: Tier, sys: &'a Sys) -> Part<'a, Sys> {
    let mut sizes: Vec<(usize, usize)> = vec![];
    for k in 3..=tier.pick(10u32, 13) {
        let b = 1usize << k;
        for w in [b - 1, b, b + 1] {
            sizes.push((w, 1));
            if k <= 8 {
                sizes.push((w, 2));
            }
        }
    }
    Part {
        name: "widths-around-powers-of-two",
        sys,
        cfgs: cfgs(&sizes, &[Some(0)]),
        alphabet: &alpha_pow2,
        depth: 3,
        seconds: tier.pick(20.0, 1800.0),
        validated: false,
        nontrivial: None,
    }
}

/// long runs of text (every length up to twice the width) from every placement - region x
/// origin mode x cursor row above / inside / below it x column, wrap-pending - also after a
/// mode or charset switch in the same call: the layered alphabet of C04's realistic-screen
/// sweep on a 20x6 screen, under the no-panic oracle with every accessor
fn alpha_runs(cfg: &Cfg) -> Vec<Op> {
    super::sweep::layered(super::sweep::wide_placements(cfg), super::sweep::wide_print_funcs(cfg))
}

fn runs_part<'a>(tier: Tier, sys: &'a Sys) -> Part<'a, Sys> {
    Part {
        name: "text-runs-from-every-placement",
        sys,
        cfgs: match tier {
            Tier::Quick => cfgs(&[(20, 6)], &[None]),
            Tier::Thorough => cfgs(&[(20, 6), (9, 4), (40, 10)], &[None, Some(0)]),
        },
        alphabet: &alpha_runs,
        depth: 2,
        seconds: tier.pick(20.0, 1800.0),
        validated: false,
        nontrivial: None,
    }
}

/// Rows of 2^k - 1, 2^k, 2^k + 1 cells (k up to 17) filled in every uniform way - one
/// character in one pen (DECALN, a repeated character, coloured blanks), alternating pens,
/// a long run then a change - dumped, and the dump fed to a fresh terminal: every call returns. (Run-length encodings of the dump have their limits here.)
fn wide_row_dumps(ctx: &Ctx, rep: &mut Report) {
    let mut widths: Vec<usize> = vec![];
    for k in [6u32, 7, 8, 10, 12, 15, 16, 17] {
        let b = 1usize << k;
        widths.extend([b - 1, b, b + 1]);
    }
    if ctx.tier == Tier::Thorough {
        widths.extend([65599, 131099, 196608, 262145]);
    }
    let fills: [(&str, &(dyn Fn(usize) -> String + Sync)); 6] = [
        ("DECALN", &|_w| "\x1b#8".to_string()),
        ("a repeated character", &|w| format!("x\x1b[{}b\x1b[{}b\x1b[{}b", 65535.min(w), 65535.min(w), w)),
        ("coloured blanks", &|_w| "\x1b[44m\x1b[2K".to_string()),
        ("text", &|w| "abcdefghijklmnopqrstuvwxyz".chars().cycle().take(w).collect()),
        ("a run, then another pen", &|w| format!("{}\x1b[1m{}", "r".repeat(w / 2), "s".repeat(w - w / 2))),
        ("a blank run, then text", &|w| format!("\x1b[{}Gend", w.saturating_sub(3).max(1))),
    ];
    let cases: Vec<(usize, usize)> = widths.iter().flat_map(|&w| (0..fills.len()).map(move |f| (w, f))).collect();
    let bad: Vec<String> = cases
        .par_iter()
        .filter_map(|&(w, f)| {
            let r = guarded(|| {
                let mut vt = build_vt(w, 2, Some(0));
                let _ = vt.feed_str(&(fills[f].1)(w));
                // (that the restored terminal equals the original is C11's business; here every
                // call has to return)
                let d = vt.dump();
                let mut r = build_vt(w, 2, Some(0));
                let _ = r.feed_str(&d);
                let _ = (vt.text(), vt.lines().len(), vt.cursor(), r.dump().len(), r.text());
                None::<String>
            });
            match r {
                Ok(None) => None,
                Ok(Some(d)) => Some(format!("{}x2 filled with {}: {}", w, fills[f].0, d)),
                Err(p) => Some(format!("{}x2 filled with {}: panic: {}", w, fills[f].0, p)),
            }
        })
        .collect();
    let n = cases.len() as u64;
    rep.evaluations += n;
    rep.transitions += n * 2;
    rep.parts.push(json!({"part":"wide-row-dumps","widths":widths.len(),"max_width":widths.iter().max(),"fills":fills.len(),"cases":n,"violating":bad.len()}));
    println!("part wide-row-dumps: {} (width, fill) cases up to {} columns, {} violating", n, widths.iter().max().unwrap(), bad.len());
    if let Some(d) = bad.first() {
        emit_violation(ctx, rep, "C01", json!({"part":"wide-row-dumps","oracle":"panic","observed":d}));
        rep.violations += bad.len() as u64 - 1;
    }
}

fn make_sys(tier: Tier) -> Sys {
    let mut extreme = a_extreme();
    // sizes far from the tiny ones (the work is still what the call requests)
    for (c, r) in [(300, 1), (1, 300), (120, 50), (1000, 2), (2, 1000)] {
        extreme.push(Op::resize(c, r));
    }
    Sys {
        extreme,
        extreme_depth: tier.pick(1, 2),
        second: second_ops(),
    }
}

/// Every scroll region across every change of height: heights 2..=8, every region
/// (top < bottom), origin mode on / off, on either screen, then a resize to every height
/// 1..=10 (and one of three widths), then everything that scrolls, addresses or reads the
/// region - LF / RI / NEL runs from the top and the bottom, SU, SD, IL, DL, origin-mode
/// addressing with printing, DECSC / DECRC, dump(), text(), and the way back.
fn regions_across_heights(ctx: &Ctx, rep: &mut Report) {
    let mut cases: Vec<(usize, u32, u32, bool, bool, usize, usize)> = vec![];
    for r in 2..=8usize {
        for t in 1..r as u32 {
            for b in t + 1..=r as u32 {
                for origin in [false, true] {
                    for alt in [false, true] {
                        for h in 1..=10usize {
                            for w in [4usize, 2, 7] {
                                if h != r || w != 4 {
                                    cases.push((r, t, b, origin, alt, h, w));
                                }
                            }
                        }
                    }
                }
            }
        }
    }
    let battery = "\x1b[H\n\n\n\n\n\n\n\n\n\n\n\x1bM\x1bM\x1bM\x1bM\x1bM\x1bM\x1bM\x1bM\x1bM\x1bM\x1bM\x1b[99;1H\n\n\x1b[2S\x1b[2T\x1b[L\x1b[M\x1b[99L\x1b[99M\x1b[99S\x1b[99T\x1b[?6h\x1b[1;1Hab\x1b[99;99Hcd\x1b[2;1Hx\x1b7\x1b[?6l\x1b8\x1b[99;1H\u{85}\u{85}\x1b[1;1H\x1bM";
    let bad: Vec<String> = cases
        .par_iter()
        .filter_map(|&(r, t, b, origin, alt, h, w)| {
            let res = guarded(|| {
                let mut vt = build_vt(4, r, None);
                let _ = vt.feed_str("1\r\n2\r\n3\r\n4\r\n5\r\n6\r\n7\r\n8\r\n9");
                if alt {
                    let _ = vt.feed_str("\x1b[?1049h");
                }
                let _ = vt.feed_str(&format!("\x1b[{};{}r{}", t, b, if origin { "\x1b[?6h" } else { "" }));
                let _ = vt.resize(w, h).scrollback.count();
                if let Some(e) = super::common::geometry_broken(&vt, (w, h)) {
                    return Some(format!("after the resize: {}", e));
                }
                for piece in [battery, "\x1b[?1049l", battery, "\x1b[?1047h", battery] {
                    let _ = vt.feed_str(piece).scrollback.count();
                    let _ = (vt.dump(), vt.text(), vt.cursor());
                    if let Some(e) = super::common::geometry_broken(&vt, (w, h)) {
                        return Some(format!("after {}...: {}", esc(&piece.chars().take(12).collect::<String>()), e));
                    }
                }
                let _ = vt.resize(4, r).scrollback.count();
                let _ = vt.feed_str(battery).scrollback.count();
                let _ = vt.dump();
                None
            });
            let head = format!("4x{} {} screen, region {}..{}, origin mode {}, resized to {}x{}", r, if alt { "alternate" } else { "primary" }, t, b, if origin { "on" } else { "off" }, w, h);
            match res {
                Ok(None) => None,
                Ok(Some(e)) => Some(format!("{}: {}", head, e)),
                Err(m) => Some(format!("{}, then scrolling / addressing / reading: panic: {}", head, m)),
            }
        })
        .collect();
    let n = cases.len() as u64;
    rep.evaluations += n * 8;
    rep.transitions += n * 8;
    rep.parts.push(json!({"part":"regions-across-height-changes","cases":n,"violating":bad.len()}));
    println!("part regions-across-height-changes: {} (height, region, origin, screen, new size) cases, {} violating", n, bad.len());
    if let Some(d) = bad.first() {
        emit_violation(ctx, rep, "C01", json!({"part":"regions-across-height-changes","oracle":"panic","observed":d}));
        rep.violations += bad.len() as u64 - 1;
    }
}

pub fn run(ctx: &Ctx) -> Report {
    let mut rep = Report::new();
    let sys = make_sys(ctx.tier);
    let p = parts!(ctx.tier, &sys);
    run_part(ctx, &mut rep, &p);
    let plain = Sys { extreme: vec![], extreme_depth: 0, second: vec![] };
    run_part(ctx, &mut rep, &deep_part(ctx.tier, &plain));
    run_part(ctx, &mut rep, &modes_part(ctx.tier, &plain));
    run_part(ctx, &mut rep, &core_part(ctx.tier, &plain));
    run_part(ctx, &mut rep, &pow2_part(ctx.tier, &plain));
    run_part(ctx, &mut rep, &runs_part(ctx.tier, &plain));
    sweep(ctx, &mut rep);
    long_call_history(ctx, &mut rep);
    regions_across_heights(ctx, &mut rep);
    wide_row_dumps(ctx, &mut rep);
    stack_cases(ctx, &mut rep);
    rep.extra.insert("extreme_alphabet_size".into(), json!(sys.extreme.len()));
    rep.rule = "BFS over op histories (all functions, truncated sequences, resizes incl. 17x2 and 2x9, every Changes treatment) in an overflow-checks + debug-assertions build; every state also gets all read accessors, the same history through TextCollector, and (up to the extreme-layer depth) every extreme-parameter input followed by 9 ordinary ops; plus every listed Unicode scalar fed from every parser state. Oracle: no panic, CPU-time watchdog, per-call allocation envelope".into();
    rep.assumptions = vec![
        "running time is judged by a watchdog on the CPU time one job (a state with all its transitions and layers) consumes (60 s; wall-clock backstop 30 min) and by the allocation envelope 1 MiB + 64 KiB x (chars + explicit counts) + 4 KiB x cells".into(),
        "quick tier sweeps scalars < U+3000 and every 251st above; thorough sweeps all 1,112,064".into(),
    ];
    rep
}

pub fn replay(ctx: &Ctx, v: &Value) -> bool {
    if v["part"] == "parser-sweep" {
        let r = sweep_one(
            v["cols"].as_u64().unwrap() as usize,
            v["rows"].as_u64().unwrap() as usize,
            v["prefix_raw"].as_str().unwrap(),
            v["scalar"].as_u64().unwrap() as u32,
            v["scalar"].as_u64().unwrap() % 2 == 0,
        );
        println!("{:?}", r);
        return r.is_err();
    }
    let tier = if v["tier"] == "thorough" { Tier::Thorough } else { Tier::Quick };
    if v["part"] == "origin-margins-save-deep" {
        let plain = Sys { extreme: vec![], extreme_depth: 0, second: vec![] };
        return replay_part(ctx, &modes_part(tier, &plain), v);
    }
    if v["part"] == "widths-around-powers-of-two" {
        let plain = Sys { extreme: vec![], extreme_depth: 0, second: vec![] };
        return replay_part(ctx, &pow2_part(tier, &plain), v);
    }
    if v["part"] == "text-runs-from-every-placement" {
        let plain = Sys { extreme: vec![], extreme_depth: 0, second: vec![] };
        return replay_part(ctx, &runs_part(tier, &plain), v);
    }
    if v["part"] == "save-alt-resize-core-deep" {
        let plain = Sys { extreme: vec![], extreme_depth: 0, second: vec![] };
        return replay_part(ctx, &core_part(tier, &plain), v);
    }
    if v["part"] == "deep-structures-on-a-small-stack" {
        let exe = std::env::var("AVTMC_STACKCHECK").unwrap_or_else(|_| "/verif/target-stackcheck/debug/avt-stackcheck".to_string());
        let st = std::process::Command::new(&exe).arg("run").arg(v["case"].as_str().unwrap_or("")).status();
        println!("{:?}", st);
        return !st.map(|s| s.success()).unwrap_or(false);
    }
    if v["part"] == "regions-across-height-changes" {
        let mut rep = Report::new();
        regions_across_heights(ctx, &mut rep);
        return rep.violations > 0;
    }
    if v["part"] == "wide-row-dumps" {
        let mut rep = Report::new();
        let c2 = Ctx { id: ctx.id.clone(), tier, seed: 0, start: ctx.start, known: ctx.known.clone(), replay_dir: ctx.replay_dir.clone() };
        wide_row_dumps(&c2, &mut rep);
        return rep.violations > 0;
    }
    if v["part"] == "long-call-history" {
        let mut rep = Report::new();
        let c2 = Ctx { id: ctx.id.clone(), tier, seed: 0, start: ctx.start, known: ctx.known.clone(), replay_dir: ctx.replay_dir.clone() };
        long_call_history(&c2, &mut rep);
        return rep.violations > 0;
    }
    if v["part"] == "alt-resize-save-deep" {
        let plain = Sys { extreme: vec![], extreme_depth: 0, second: vec![] };
        return replay_part(ctx, &deep_part(tier, &plain), v);
    }
    let sys = make_sys(tier);
    let p = parts!(tier, &sys);
    replay_part(ctx, &p, v)
}
