//! C03 — the parser follows the DEC/ANSI state machine; dispatch is exact and memoryless.

use crate::engine::{guarded, Out, System};
use crate::obs::{fp_combine, fp_str};
use crate::ops::*;
use crate::refparser::{agrees, Expect, RefParser};
use crate::report::*;
use avt::parser::{Function, Parser, State};
use rayon::prelude::*;
use serde_json::{json, Value};
use std::time::Instant;

/// (state name, prefix) — several parameter / intermediate backgrounds per state
const BACKGROUNDS: &[(&str, &str)] = &[
    ("Ground", ""),
    ("Ground", "\x1b[1;2;3m"),
    ("Ground", "\x1b[?1;2$p"),
    ("Escape", "\x1b"),
    ("Escape", "\x1b[5;6\x1b"),
    ("EscapeIntermediate", "\x1b("),
    ("EscapeIntermediate", "\x1b#"),
    ("EscapeIntermediate", "\x1b !"),
    ("CsiEntry", "\x1b["),
    ("CsiEntry", "\u{9b}"),
    ("CsiEntry", "\x1b[1;2;3m\x1b["),
    ("CsiParam", "\x1b[5"),
    ("CsiParam", "\x1b[?1;2"),
    ("CsiParam", "\x1b[38:2:1"),
    ("CsiParam", "\x1b[;"),
    ("CsiParam", "\x1b[1;2;3;4;5;6;7;8;9;10;11;12;13;14;15;16;17;18;19;20;21;22;23;24;25;26;27;28;29;30;31;32"),
    ("CsiIntermediate", "\x1b[5 "),
    ("CsiIntermediate", "\x1b[!"),
    ("CsiIntermediate", "\x1b[?1$"),
    ("CsiIgnore", "\x1b[:"),
    ("CsiIgnore", "\x1b[5<"),
    ("CsiIgnore", "\x1b[ 1"),
    ("DcsEntry", "\x1bP"),
    ("DcsEntry", "\u{90}"),
    ("DcsParam", "\x1bP1;2"),
    ("DcsParam", "\x1bP?"),
    ("DcsIntermediate", "\x1bP1$"),
    ("DcsIntermediate", "\x1bP "),
    ("DcsPassthrough", "\x1bPq"),
    ("DcsPassthrough", "\x1bP1$rabc"),
    ("DcsIgnore", "\x1bP:"),
    ("DcsIgnore", "\x1bP1$1"),
    ("OscString", "\x1b]"),
    ("OscString", "\u{9d}0;title"),
    ("SosPmApcString", "\x1bX"),
    ("SosPmApcString", "\x1b_abc"),
    ("SosPmApcString", "\u{9e}"),
];

fn scalars(tier: Tier) -> Vec<u32> {
    let mut v = vec![];
    match tier {
        Tier::Thorough => {
            for cp in 0..=0x10FFFFu32 {
                if char::from_u32(cp).is_some() {
                    v.push(cp);
                }
            }
        }
        Tier::Quick => {
            for cp in 0..0x3000u32 {
                v.push(cp);
            }
            let mut cp = 0x3000u32;
            while cp <= 0x10FFFF {
                if char::from_u32(cp).is_some() {
                    v.push(cp);
                }
                cp += 7;
            }
            for cp in [0xD7FF, 0xE000, 0xFFFD, 0xFFFF, 0x10000, 0x10FFFF] {
                v.push(cp);
            }
        }
    }
    v
}

/// feed `s` to both; Err on the first disagreement
fn run_pair(p: &mut Parser, r: &mut RefParser, s: &str) -> Result<(), String> {
    for ch in s.chars() {
        let got = p.feed(ch);
        let exp = r.feed(ch);
        if !r.state.same(&p.state) {
            return Err(format!("after {:?}: parser state {:?}, expected {:?}", ch, p.state, r.state));
        }
        if !agrees(&exp, &got) {
            return Err(format!("at {:?}: parser returned {:?}, expected {:?}", ch, got, exp));
        }
    }
    Ok(())
}

fn table_case(prefix: &str, cp: u32, follow: &str) -> Result<(), String> {
    let mut p = Parser::new();
    let mut r = RefParser::new();
    run_pair(&mut p, &mut r, prefix).map_err(|e| format!("in prefix: {}", e))?;
    let ch = char::from_u32(cp).unwrap();
    let mut b = [0u8; 4];
    run_pair(&mut p, &mut r, ch.encode_utf8(&mut b))?;
    // a complete sequence afterwards must still be parsed from the state reached
    run_pair(&mut p, &mut r, follow).map_err(|e| format!("in follow-up {}: {}", esc(follow), e))
}

fn table_sweep(ctx: &Ctx, rep: &mut Report) {
    let sc = scalars(ctx.tier);
    let t0 = Instant::now();
    let mut total = 0u64;
    let mut nbad = 0;
    for (state, prefix) in BACKGROUNDS {
        // entering the background must itself agree and reach the named state
        {
            let mut p = Parser::new();
            let mut r = RefParser::new();
            let res = run_pair(&mut p, &mut r, prefix);
            if res.is_err() || format!("{:?}", p.state) != *state {
                emit_violation(ctx, rep, "C03", json!({"part":"transition-table","prefix_raw":prefix,"prefix":esc(prefix),"scalar":-1,
                    "oracle":"background","observed":format!("{:?}; parser in {:?}, expected {}", res, p.state, state)}));
                continue;
            }
        }
        let bad: Vec<(u32, String)> = sc
            .par_iter()
            .filter_map(|&cp| match guarded(|| table_case(prefix, cp, "5;6H\x1b[1;2H")) {
                Ok(Ok(())) => None,
                Ok(Err(e)) => Some((cp, e)),
                Err(m) => Some((cp, format!("panic: {}", m))),
            })
            .collect();
        total += sc.len() as u64;
        for (cp, e) in bad.iter().take(2) {
            nbad += 1;
            if nbad <= 6 {
                emit_violation(ctx, rep, "C03", json!({"part":"transition-table","state":state,"prefix_raw":prefix,"prefix":esc(prefix),"scalar":cp,
                    "oracle":"state-machine-table","observed":e}));
            } else {
                rep.violations += 1;
            }
        }
        rep.count("table_violating_entries", bad.len() as u64);
    }
    rep.evaluations += total;
    rep.transitions += total;
    rep.traces_validated += total;
    rep.distinct_nontrivial += total;
    rep.parts.push(json!({"part":"transition-table","backgrounds":BACKGROUNDS.len(),"scalars":sc.len(),"entries":total,
        "all_scalars":ctx.tier==Tier::Thorough,"wall_s":t0.elapsed().as_secs_f64()}));
    rep.samples.push(json!({"background": esc(BACKGROUNDS[13].1), "scalar": "U+009C"}));
    println!("part transition-table: {} (state background x scalar) entries ({:.1}s)", total, t0.elapsed().as_secs_f64());
}

const LEAK_PREFIXES: &[&str] = &[
    "\x1b[9;8;7;6:5:4;3;2;1m",
    "\x1b[88:77:66:55:44:33;22:11:99;1:2:3:4:5:6m\x1bP9:9\x1b\\",
    "\u{9b}?65535;65535;65535;65535 q",
    // parameters whose head is empty or zero but which have sub-parameters, in every slot
    "\x1b[0:4;:2;0:0:7;:;0:1:2:3:4:5m",
];

fn dispatch_shapes(ctx: &Ctx, rep: &mut Report) {
    let t0 = Instant::now();
    let many32 = vec!["7"; 32].join(";");
    let many33 = vec!["7"; 33].join(";");
    let mut shapes: Vec<String> = [
        "", "0", "1", "7", "65535", ";", "5;", ";5", "3;4", "1;2;3", "4", "20", "4;20", "6", "25", "47", "1047", "1048", "1049",
        "1;6;7;25", "2", "3", "5", "8;2;3", "8;;", "38;5;1", "38;2;1;2;3", "38:5:1", "38:2:1:2:3", "38:2::1:2:3", "48;5;255", "1;38;5;9;4",
        "0;1;2;3;4;5;7;9", "21;22;23;24;25;27;29", "30;37;39;40;47;49;90;97;100;107", "6;8;10;26;50;98;108;1000", "1:2", "4:3", "38:5", "38;5",
        "65536", "99999", "38;4", "7;38;4;9", "48;1", "38", "1;38", "38;48:5:1;4", "0;1;3;4;5;7;9;38;2;10;20;30;48;2;40;50;60",
        // fewer parameters than the function reads (the missing ones are defaults, never leftovers)
        "8", "8;10", "8;10;", "8;;7", "8;10;20", "8:1;10", "08;010;020",
        // the value is what the digits say, however many of them there are
        // many parameters WITH sub-parameters in one sequence (every slot keeps its own)
        "4:1;4:2;4:3;4:1;4:2;4:3;4:1;4:2;38:5:9;5;1", "1:1;2:2;3:3;4:4;5:5;6:6;7:7;8:8;9:9;38:2:1:2:3;4", "4:3;4:3;4:3;4:3;4:3;4:3;4:3;4:3;4:3;4:3;4:3;4:3;48:5:200;7",
        "000003", "0000000005;0000000007", "00000000000000000001", "000000", "0000065535", "1;000002;3", "38;5;0000200", "38:2:0000001:0000002:0000003",
    ]
    .iter()
    .map(|s| s.to_string())
    .collect();
    shapes.push(many32);
    shapes.push(many33);
    // every parameter COUNT 1..=34 (the number of parameters never changes which function it is)
    for k in 1..=34usize {
        shapes.push(vec!["2"; k].join(";"));
        if k >= 2 {
            shapes.push(format!("{}2", ";".repeat(k - 1)));
        }
    }
    let mut prefixes: Vec<String> = vec!["".into(), "?".into(), "<".into(), "=".into(), ">".into()];
    let mut inters: Vec<String> = vec!["".into()];
    for i in 0x20u8..=0x2f {
        inters.push((i as char).to_string());
    }
    inters.push("$!".into());
    let mut cases: Vec<String> = vec![];
    for intro in ["\x1b[", "\u{9b}"] {
        for pre in &prefixes {
            for sh in &shapes {
                for it in &inters {
                    for fin in 0x40u8..=0x7e {
                        cases.push(format!("{}{}{}{}{}", intro, pre, sh, it, fin as char));
                    }
                }
            }
        }
    }
    prefixes.clear();
    // ESC sequences: every final with no / each intermediate
    for fin in 0x30u8..=0x7e {
        cases.push(format!("\x1b{}", fin as char));
        for i in 0x20u8..=0x2f {
            cases.push(format!("\x1b{}{}", i as char, fin as char));
        }
    }
    let bad: Vec<(String, String)> = cases
        .par_iter()
        .filter_map(|s| {
            // previous sequences with many parameters / sub-parameters must not leak
            for pre in LEAK_PREFIXES {
                let mut p = Parser::new();
                let mut r = RefParser::new();
                let full = format!("{}{}X", pre, s);
                match guarded(|| run_pair(&mut p, &mut r, &full)) {
                    Ok(Ok(())) => {}
                    Ok(Err(e)) => return Some((format!("{}{}", pre, s), e)),
                    Err(m) => return Some((format!("{}{}", pre, s), format!("panic: {}", m))),
                }
            }
            None
        })
        .collect();
    let runs = (cases.len() * LEAK_PREFIXES.len()) as u64;
    rep.evaluations += runs;
    rep.transitions += runs;
    rep.traces_validated += runs;
    rep.distinct_nontrivial += cases.len() as u64;
    rep.parts.push(json!({"part":"dispatch-shapes","leak_prefixes":LEAK_PREFIXES.len(),"sequences":cases.len(),"violating":bad.len(),"wall_s":t0.elapsed().as_secs_f64()}));
    println!("part dispatch-shapes: {} sequences, {} violating ({:.1}s)", cases.len(), bad.len(), t0.elapsed().as_secs_f64());
    for (s, e) in bad.iter().take(3) {
        emit_violation(ctx, rep, "C03", json!({"part":"dispatch-shapes","sequence_raw":s,"sequence":esc(s),"oracle":"dispatch","observed":e}));
    }
    if bad.len() > 3 {
        rep.violations += bad.len() as u64 - 3;
    }
}

/// SGR parameter lists, systematically: every list of up to 4 (thorough 5) parameters over
/// the selectors, plain codes, parameters WITH sub-parameters that start like a selector,
/// complete colon forms and the empty parameter - the decoding of each list against the
/// reference decoder (lists it leaves unspecified - malformed colour forms - are skipped
/// by `run_pair`).
fn sgr_shapes(ctx: &Ctx, rep: &mut Report) {
    let t0 = Instant::now();
    let atoms = [
        "38", "48", "2", "5", "1", "3", "9", "2:7", "5:9", "38:5:1", "48:2::1:2:3", "", "38:2:1:2:3", "5:0",
        // selectors that are 2 / 5 only modulo 256 or 65536: no colour
        "38:261:7", "48:258:1:2:3", "38:65285:9",
    ];
    let k = ctx.tier.pick(4usize, 5usize);
    let mut lists: Vec<String> = vec![];
    let mut level: Vec<Vec<&str>> = vec![vec![]];
    for _ in 0..k {
        let mut next = vec![];
        for l in &level {
            for a in atoms {
                let mut x = l.clone();
                x.push(a);
                next.push(x);
            }
        }
        lists.extend(next.iter().map(|l| l.join(";")));
        level = next;
    }
    let bad: Vec<(String, String)> = lists
        .par_iter()
        .filter_map(|l| {
            for intro in ["\x1b[", "\u{9b}"] {
                let mut p = Parser::new();
                let mut r = RefParser::new();
                let full = format!("{}{}mX", intro, l);
                match guarded(|| run_pair(&mut p, &mut r, &full)) {
                    Ok(Ok(())) => {}
                    Ok(Err(e)) => return Some((full, e)),
                    Err(m) => return Some((full, format!("panic: {}", m))),
                }
            }
            None
        })
        .collect();
    let runs = lists.len() as u64 * 2;
    rep.evaluations += runs;
    rep.transitions += runs;
    rep.traces_validated += runs;
    rep.distinct_nontrivial += lists.len() as u64;
    rep.parts.push(json!({"part":"sgr-shapes","atoms":atoms.len(),"max_parameters":k,"lists":lists.len(),"violating":bad.len(),"wall_s":t0.elapsed().as_secs_f64()}));
    println!("part sgr-shapes: {} parameter lists, {} violating ({:.1}s)", lists.len(), bad.len(), t0.elapsed().as_secs_f64());
    for (s, e) in bad.iter().take(3) {
        emit_violation(ctx, rep, "C03", json!({"part":"dispatch-shapes","sequence_raw":s,"sequence":esc(s),"oracle":"dispatch","observed":e}));
    }
    if bad.len() > 3 {
        rep.violations += bad.len() as u64 - 3;
    }
}

/// A string lasts until its terminator however long it is and whatever came before: one
/// payload of 2^20, 2^22 + 1 and 5 000 000 (thorough 2^24 + 1) characters for each string
/// kind and introducer, and 6000 (thorough 20 000) strings of 1000 characters in a row behind
/// the 8-bit introducers with nothing else in between - the parser stays in the string state,
/// dispatches nothing, and is in ground after the terminator.
fn long_strings(ctx: &Ctx, rep: &mut Report) {
    let intros = ["\x1b]", "\u{9d}", "\x1bP", "\u{90}", "\x1bX", "\u{98}", "\x1b^", "\u{9e}", "\x1b_", "\u{9f}"];
    let lens: Vec<usize> = ctx.tier.pick(vec![1 << 20, (1 << 22) + 1, 5_000_000], vec![1 << 20, (1 << 22) + 1, 5_000_000, (1 << 24) + 1]);
    let many = ctx.tier.pick(6000usize, 20_000usize);
    let bad: Vec<String> = intros
        .par_iter()
        .filter_map(|intro| {
            let r = guarded(|| {
                for &n in &lens {
                    let mut p = Parser::new();
                    for ch in intro.chars() {
                        if p.feed(ch).is_some() {
                            return Some("the introducer dispatched a function".to_string());
                        }
                    }
                    for i in 0..n {
                        if let Some(f) = p.feed('p') {
                            return Some(format!("payload character {} of {} dispatched {:?}", i + 1, n, f));
                        }
                        if p.state == State::Ground {
                            return Some(format!("the parser fell back to ground after {} of {} payload characters", i + 1, n));
                        }
                    }
                    let _ = p.feed('\u{9c}');
                    if p.state != State::Ground {
                        return Some(format!("not in ground after the terminator of a {}-character string", n));
                    }
                }
                // running totals: many strings in a row
                let mut p = Parser::new();
                for k in 0..many {
                    for ch in intro.chars() {
                        let _ = p.feed(ch);
                    }
                    for i in 0..1000 {
                        if let Some(f) = p.feed('t') {
                            return Some(format!("string {} payload character {} dispatched {:?}", k + 1, i + 1, f));
                        }
                        if p.state == State::Ground {
                            return Some(format!("string {} of {} fell back to ground at payload character {}", k + 1, many, i + 1));
                        }
                    }
                    let _ = p.feed('\u{9c}');
                    if p.state != State::Ground {
                        return Some(format!("string {} of {}: not in ground after its terminator", k + 1, many));
                    }
                }
                None
            });
            match r {
                Ok(None) => None,
                Ok(Some(d)) => Some(format!("strings introduced by {}: {}", esc(intro), d)),
                Err(m) => Some(format!("strings introduced by {}: panic: {}", esc(intro), m)),
            }
        })
        .collect();
    let n = intros.len() as u64 * (lens.len() as u64 + 1);
    rep.evaluations += n;
    rep.traces_validated += n;
    rep.parts.push(json!({"part":"long-strings","introducers":intros.len(),"lengths":lens,"strings_in_a_row":many,"violating":bad.len()}));
    println!("part long-strings: {} introducers x {} lengths + {} strings in a row, {} violating", intros.len(), lens.len(), many, bad.len());
    if let Some(d) = bad.first() {
        emit_violation(ctx, rep, "C03", json!({"part":"long-strings","oracle":"state-machine-table","observed":d}));
        rep.violations += bad.len() as u64 - 1;
    }
}

/// "independent of whatever sequences were parsed before": after each sequence that other
/// terminals implement and this one ignores, every C1 control and the whole continuation are
/// understood as by a fresh parser.
fn after_foreign(ctx: &Ctx, rep: &mut Report) {
    let cont: String = (0x80u32..=0x9f).filter_map(char::from_u32).flat_map(|c| [c, '\u{9c}', 'x']).chain("\u{9b}5;6H\x1b[1;2m\x1bM\u{9d}t\u{9c}y".chars()).collect();
    let fresh: Vec<String> = {
        let mut p = Parser::new();
        cont.chars().map(|ch| format!("{:?}/{:?}", p.feed(ch), p.state)).collect()
    };
    let mut n = 0u64;
    for f in crate::alphabets::KNOWN_FOREIGN {
        let mut p = Parser::new();
        for ch in f.chars() {
            let _ = p.feed(ch);
        }
        let got: Vec<String> = cont.chars().map(|ch| format!("{:?}/{:?}", p.feed(ch), p.state)).collect();
        n += 1;
        if got != fresh {
            let i = got.iter().zip(fresh.iter()).position(|(a, b)| a != b).unwrap_or(0);
            emit_violation(ctx, rep, "C03", json!({"part":"after-foreign-sequences","sequence":esc(f),"oracle":"dispatch","observed":format!("after {}: character {} ({:?}) of the continuation gives {}, a fresh parser gives {}", esc(f), i, cont.chars().nth(i), got[i], fresh[i])}));
            break;
        }
    }
    rep.evaluations += n;
    rep.traces_validated += n;
    rep.parts.push(json!({"part":"after-foreign-sequences","sequences":n}));
}

/// "independent of whatever sequences were parsed before" - however MANY there were: after a
/// sequence that fills every parameter position, N short sequences (N around every power of
/// two from 2^6 to 2^17, and around half of it: an ESC-introduced sequence passes two of the
/// places where a parser may reset itself, an 8-bit one passes one), then sequences that read
/// positions they do not write.
fn many_sequences_between(ctx: &Ctx, rep: &mut Report) {
    let mut ns: Vec<usize> = vec![];
    for k in 6..=ctx.tier.pick(17u32, 20) {
        let b = 1usize << k;
        for d in 0..=3 {
            ns.extend([b - d, b + d, b / 2 - d.min(b / 2), b / 2 + d]);
        }
    }
    ns.sort();
    ns.dedup();
    let fillers = ["\x1b[m", "\u{9b}m", "\x1b[1m", "\x1bM", "\x1b]0;t\x07"];
    let cases: Vec<(usize, usize)> = ns.iter().flat_map(|&n| (0..fillers.len()).map(move |f| (n, f))).collect();
    let bad: Vec<String> = cases
        .par_iter()
        .filter_map(|&(n, f)| {
            let r = guarded(|| {
                let mut p = Parser::new();
                let mut rp = RefParser::new();
                let full = format!("\x1b[9;8;7;6:5:4;3;2;1m\x1b[5;7H{}\x1b[HX\x1b[4HX\x1b[rX\x1b[8tX\x1b[;3HX", fillers[f].repeat(n));
                run_pair(&mut p, &mut rp, &full)
            });
            match r {
                Ok(Ok(())) => None,
                Ok(Err(e)) => Some(format!("{} x {} between: {}", n, esc(fillers[f]), e)),
                Err(m) => Some(format!("{} x {}: panic: {}", n, esc(fillers[f]), m)),
            }
        })
        .collect();
    let n = cases.len() as u64;
    rep.evaluations += n;
    rep.traces_validated += n;
    rep.parts.push(json!({"part":"many-sequences-between","counts":ns.len(),"max_count":ns.last(),"fillers":fillers.len(),"cases":n,"violating":bad.len()}));
    println!("part many-sequences-between: {} counts up to {} x {} fillers, {} violating", ns.len(), ns.last().unwrap(), fillers.len(), bad.len());
    if let Some(d) = bad.first() {
        emit_violation(ctx, rep, "C03", json!({"part":"many-sequences-between","oracle":"dispatch","observed":d}));
        rep.violations += bad.len() as u64 - 1;
    }
}

/// ESC Fe vs its C1 twin from every parser state: same state, same function,
/// same behaviour for a following `5;6H`.
fn esc_fe_twins(ctx: &Ctx, rep: &mut Report) {
    let mut n = 0u64;
    for (_, prefix) in BACKGROUNDS {
        for fe in 0x40u32..=0x5f {
            let seven = format!("\x1b{}", char::from_u32(fe).unwrap());
            let eight = char::from_u32(fe + 0x40).unwrap().to_string();
            let run = |s: &str| -> (String, Vec<Option<Function>>) {
                let mut p = Parser::new();
                for ch in prefix.chars() {
                    p.feed(ch);
                }
                let mut out = vec![];
                for ch in s.chars() {
                    out.push(p.feed(ch));
                }
                let last = out.pop().unwrap();
                let mut tail = vec![last];
                for ch in "5;6H".chars() {
                    tail.push(p.feed(ch));
                }
                (format!("{:?}", p.state), tail)
            };
            n += 1;
            let a = run(&seven);
            let b = run(&eight);
            if a != b {
                emit_violation(ctx, rep, "C03", json!({"part":"esc-fe-twins","prefix_raw":prefix,"fe":fe,"oracle":"7-bit-equals-8-bit",
                    "observed":format!("ESC {:?}: {:?} vs C1: {:?}", char::from_u32(fe).unwrap(), a, b)}));
                return;
            }
        }
    }
    rep.evaluations += n;
    rep.traces_validated += n;
    rep.parts.push(json!({"part":"esc-fe-twins","cases":n}));
}

// ---- memorylessness: product BFS of (real Parser, RefParser) ----

pub struct Sys;
pub struct PSt {
    p: Parser,
    r: RefParser,
}

impl System for Sys {
    type St = PSt;
    fn init(&self, _cfg: &Cfg) -> PSt {
        PSt { p: Parser::new(), r: RefParser::new() }
    }
    fn step(&self, _cfg: &Cfg, st: &mut PSt, op: &Op, out: Option<&mut Out>) {
        let res = run_pair(&mut st.p, &mut st.r, &op.text);
        if let Some(out) = out {
            out.count("parser_steps");
            if let Err(e) = res {
                out.violate("C03", "product-with-reference-parser", e);
            }
            out.obs_hash = Some(fp_str(&format!("{:?}", st.r)) as u64);
        }
    }
    fn key(&self, st: &PSt) -> u128 {
        fp_combine(fp_str(&format!("{:?}", st.p)), fp_str(&format!("{:?}", st.r)))
    }
}

fn token_alphabet(_cfg: &Cfg) -> Vec<Op> {
    // one representative per character class, plus finals that read parameters
    [
        "a", "\n", "\x18", "\x1b", " ", "!", "$", "0", "5", "9", ":", ";", "?", "<", "H", "m", "h", "p", "r", "[", "]", "P", "X", "\\", "\x7f",
        "\x07", "\u{84}", "\u{90}", "\u{98}", "\u{9b}", "\u{9c}", "\u{9d}", "\u{e9}", "(",
    ]
    .iter()
    .map(|s| Op::raw(s))
    .collect()
}

macro_rules! parts {
    ($tier:expr) => {{
        let tier: Tier = $tier;
        Part {
            name: "memorylessness-product",
            sys: &Sys,
            cfgs: vec![Cfg::new(1, 1, Some(0))],
            alphabet: &token_alphabet,
            depth: tier.pick(8, 10),
            seconds: tier.pick(30.0, 2400.0),
            validated: true,
            nontrivial: Some("parser_steps"),
        }
    }};
}

pub fn run(ctx: &Ctx) -> Report {
    let mut rep = Report::new();
    crate::engine::install_panic_hook();
    table_sweep(ctx, &mut rep);
    dispatch_shapes(ctx, &mut rep);
    sgr_shapes(ctx, &mut rep);
    esc_fe_twins(ctx, &mut rep);
    after_foreign(ctx, &mut rep);
    long_strings(ctx, &mut rep);
    many_sequences_between(ctx, &mut rep);
    let p = parts!(ctx.tier);
    run_part(ctx, &mut rep, &p);
    super::stream::run(ctx, &mut rep, "C03", "stream-segmentation-through-feed_str", "feed_str-segments-like-the-table", false);
    rep.rule = "(a) every (parser state x background) x every listed Unicode scalar: next state and returned function compared with a table-driven reference parser transcribed from Williams' diagram (+ the four stated deviations), followed by a complete CUP to confirm the state; (b) every CSI final 0x40-0x7E x {no prefix, ? < = >} x 44 parameter shapes x {no intermediate, each 0x20-0x2F, two intermediates} in 7- and 8-bit form, every ESC final x intermediates, each after a parameter-heavy sequence; (b2) every SGR parameter list of <= 4 (thorough 5) parameters over 14 atoms (selectors, plain codes, parameters with sub-parameters that start like a selector, colon forms, empty); (c) every ESC Fe vs its C1 twin from every background; (d) product BFS of (real Parser, reference) over 34 class-representative tokens, dedup on the real parser's complete state; (e) every string of <= 4 (thorough 5; one more after ESC / CSI) characters over 30 class representatives through Vt::feed_str in one call against feed() per character (the table-checked path): screen, cursor, dump()".into();
    rep.assumptions = vec![
        "functions are not compared (only states) where the statements do not fix them: > 32 parameters, > 6 sub-parameters, values > 65535, malformed SGR colour forms, a private marker combined with intermediates, charset finals other than 0/B".into(),
        "quick tier sweeps scalars < U+3000 and every 7th above; thorough sweeps all 1,112,064".into(),
    ];
    rep
}

pub fn replay(ctx: &Ctx, v: &Value) -> bool {
    match v["part"].as_str().unwrap_or("") {
        "transition-table" => {
            let cp = v["scalar"].as_i64().unwrap();
            if cp < 0 {
                return true;
            }
            let r = table_case(v["prefix_raw"].as_str().unwrap(), cp as u32, "5;6H\x1b[1;2H");
            println!("{:?}", r);
            r.is_err()
        }
        "dispatch-shapes" => {
            let mut p = Parser::new();
            let mut r = RefParser::new();
            let full = format!("{}X", v["sequence_raw"].as_str().unwrap());
            let res = run_pair(&mut p, &mut r, &full);
            println!("{:?}", res);
            res.is_err()
        }
        "stream-segmentation-through-feed_str" => super::stream::replay(v, false),
        "long-strings" | "after-foreign-sequences" | "many-sequences-between" => {
            let mut rep = Report::new();
            after_foreign(ctx, &mut rep);
            long_strings(ctx, &mut rep);
            many_sequences_between(ctx, &mut rep);
            rep.violations > 0
        }
        "esc-fe-twins" => {
            let mut rep = Report::new();
            esc_fe_twins(ctx, &mut rep);
            rep.violations > 0
        }
        _ => {
            let tier = if v["tier"] == "thorough" { Tier::Thorough } else { Tier::Quick };
            let p = parts!(tier);
            replay_part(ctx, &p, v)
        }
    }
}

#[allow(dead_code)]
fn _unused(_: Expect) {}
