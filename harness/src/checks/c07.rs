//! C07 — erase, insert and delete touch exactly their documented extent.

use crate::lockstep::LockStep;
use crate::ops::Cmd::*;
use crate::ops::*;
use crate::report::*;
use serde_json::Value;

/// every row filled with distinct letters (so rows are soft-wrapped into each other)
fn seed(cfg: &Cfg) -> Vec<Cmd> {
    let n = cfg.cols * cfg.rows;
    // letters, with a double-width, a Latin-1 and a zero-width (combining) character mixed in
    let s: String = (0..n)
        .map(|i| match (i % 5, i % 7) {
            (_, 5) => '\u{301}',
            (1, _) => '漢',
            (3, _) => 'é',
            _ => char::from_u32('a' as u32 + (i % 26) as u32).unwrap(),
        })
        .collect();
    vec![Text(s), Cup(Some(1), Some(1))]
}

fn alpha(cfg: &Cfg) -> Vec<Op> {
    let cols = cfg.cols as u32;
    let rows = cfg.rows as u32;
    let mut v: Vec<Op> = vec![];
    for s in [None, Some(0), Some(1), Some(2)] {
        v.push(c(Ed(s)));
        v.push(c(El(s)));
    }
    let mut seen = std::collections::BTreeSet::new();
    for n in [None, Some(0), Some(1), Some(2), Some(cols.saturating_sub(1).max(1)), Some(cols), Some(cols + 1), Some(65535)] {
        if !seen.insert(n) {
            continue;
        }
        v.push(c(Ech(n)));
        v.push(c(Ich(n)));
        v.push(c(Dch(n)));
    }
    v.push(c(Decaln));
    // setup
    v.push(t("x"));
    v.push(t("漢"));
    v.push(t("\u{301}"));
    v.push(t("E"));
    v.push(Op::text(&"w".repeat(cfg.cols)));
    for r in 1..=rows {
        for cc in 1..=cols {
            v.push(c(Cup(Some(r), Some(cc))));
        }
    }
    v.push(c(Cub(None)));
    v.push(c(sgr1(41)));
    v.push(c(sgr1(1)));
    v.push(c(sgr1(0)));
    // "the cursor and all modes stay exactly as they were": every mode away from its
    // default (hidden state and cursor visibility are compared after every step)
    v.push(c(Seq(vec![DecRst(vec![25]), DecSet(vec![1]), Sm(vec![20]), Sm(vec![4])])));
    // auto-wrap switched off and on again wherever the cursor is (the wrap-pending column included)
    v.push(c(DecRst(vec![7])));
    v.push(c(DecSet(vec![7])));
    v
}

macro_rules! parts {
    ($tier:expr, $sys:expr, $sys2:expr) => {{
        let tier: Tier = $tier;
        let filled = Part {
            name: "edit-lockstep-filled-screen",
            sys: $sys,
            cfgs: match tier {
                Tier::Quick => cfgs(&[(1, 1), (2, 2), (3, 2), (3, 3)], &[None]),
                Tier::Thorough => cfgs(&[(1, 1), (1, 2), (2, 1), (2, 2), (3, 2), (2, 3), (3, 3), (4, 2), (4, 3)], &[None]),
            },
            alphabet: &alpha,
            depth: tier.pick(4, 6),
            seconds: tier.pick(25.0, 2400.0),
            validated: true,
            nontrivial: Some("lockstep_transitions"),
        };
        let blank = Part {
            name: "edit-lockstep-blank-screen",
            sys: $sys2,
            cfgs: match tier {
                Tier::Quick => cfgs(&[(2, 2), (3, 2)], &[None]),
                Tier::Thorough => cfgs(&[(2, 2), (3, 2), (3, 3), (4, 2)], &[None]),
            },
            alphabet: &alpha,
            depth: tier.pick(4, 6),
            seconds: tier.pick(15.0, 1200.0),
            validated: true,
            nontrivial: Some("lockstep_transitions"),
        };
        (filled, blank)
    }};
}

static SYS: LockStep = LockStep { property: "C07", probes: true, seed: Some(&seed), via_feed: false, merged: false };
static SYS_BLANK: LockStep = LockStep { property: "C07", probes: true, seed: None, via_feed: false, merged: false };
static SYS_MED: LockStep = LockStep { property: "C07", probes: false, seed: Some(&seed), via_feed: false, merged: false };

fn alpha_medium(cfg: &Cfg) -> Vec<Op> {
    let mut v = alpha(cfg);
    for n in [3u32, 4, 5, 7, 255, 256, 257] {
        for cmd in [Ech(Some(n)), Ich(Some(n)), Dch(Some(n))] {
            v.push(c(cmd));
        }
    }
    v
}

fn medium_part(tier: Tier) -> Part<'static, LockStep> {
    Part {
        name: "edit-lockstep-medium-screen",
        sys: &SYS_MED,
        cfgs: match tier {
            Tier::Quick => cfgs(&[(7, 3)], &[None]),
            Tier::Thorough => cfgs(&[(7, 3), (8, 5)], &[None]),
        },
        alphabet: &alpha_medium,
        depth: tier.pick(3, 4),
        seconds: tier.pick(20.0, 1800.0),
        validated: true,
        nontrivial: Some("lockstep_transitions"),
    }
}

static SYS_SWEEP: LockStep = LockStep { property: "C07", probes: false, seed: Some(&super::sweep::fill), via_feed: false, merged: false };

fn alpha_sweep(cfg: &Cfg) -> Vec<Op> {
    // every cell as the cursor position: the extents are relative to it
    let mut v = super::sweep::placements(cfg, false);
    for r in 1..=cfg.rows as u32 {
        for cc in 1..=cfg.cols as u32 {
            v.push(c(Cup(Some(r), Some(cc))));
        }
    }
    v.extend(super::sweep::edit_funcs(cfg));
    v
}

/// a very wide, short screen as well: counts and extents beyond 255 columns
fn wide_cfgs(tier: Tier) -> Vec<Cfg> {
    let mut v = super::sweep::wide_cfgs(tier);
    v.push(Cfg::new(300, 3, None));
    v
}

static SYS_SPARSE: LockStep = LockStep { property: "C07", probes: false, seed: Some(&super::sweep::fill_sparse), via_feed: false, merged: false };

static SYS_FEED: LockStep = LockStep { property: "C07", probes: false, seed: None, via_feed: true, merged: false };

/// the erase / insert / delete functions delivered through feed() per character, mixed with
/// screen switches, moves and prints: no call ends between two commands, so anything that is
/// remembered "until the end of the call" (what was erased last, which rows are known to be
/// blank) is still remembered when the next command runs
fn alpha_feed(cfg: &Cfg) -> Vec<Op> {
    let cols = cfg.cols as u32;
    vec![
        Op::text(&"w".repeat(cfg.cols + 1)),
        t("ab"),
        c(El(None)),
        c(El(Some(1))),
        c(Ed(None)),
        c(Ed(Some(2))),
        c(Ech(Some(2))),
        c(Ich(None)),
        c(Dch(None)),
        c(Cup(None, None)),
        c(Cup(Some(1), Some(cols))),
        c(Cup(Some(2), Some(2))),
        c(sgr1(44)),
        c(sgr1(0)),
        c(DecSet(vec![1049])),
        c(DecRst(vec![1049])),
        c(DecSet(vec![47])),
        c(DecRst(vec![47])),
    ]
}

fn feed_part(tier: Tier) -> Part<'static, LockStep> {
    Part {
        name: "edit-lockstep-through-feed",
        sys: &SYS_FEED,
        cfgs: match tier {
            Tier::Quick => cfgs(&[(3, 2)], &[None]),
            Tier::Thorough => cfgs(&[(3, 2), (4, 3), (2, 2)], &[None]),
        },
        alphabet: &alpha_feed,
        depth: tier.pick(5, 6),
        seconds: tier.pick(20.0, 1800.0),
        validated: true,
        nontrivial: Some("lockstep_transitions"),
    }
}

static SYS_RESIZE: LockStep = LockStep { property: "C07", probes: false, seed: None, via_feed: false, merged: true };

/// erasing after the screen changed its size: blanks carry the current pen in the columns
/// and rows the resize added, too (a small alphabet, deeper; widths around a multiple of 8)
fn alpha_resize(cfg: &Cfg) -> Vec<Op> {
    let mut v = vec![
        c(sgr1(44)),
        c(sgr1(0)),
        c(Ed(Some(2))),
        c(Ed(None)),
        c(Ed(Some(1))),
        c(El(Some(2))),
        c(Ech(Some(99))),
        c(Cup(Some(2), Some(2))),
        c(Cup(None, None)),
        t("ab"),
        c(Il(None)),
        c(Su(None)),
    ];
    v.push(Op::resize(cfg.cols + 1, cfg.rows));
    v.push(Op::resize(cfg.cols + 9, cfg.rows + 1));
    v.push(Op::resize(cfg.cols.max(2) - 1, cfg.rows));
    v.push(Op::resize(cfg.cols, cfg.rows));
    v
}

fn resize_part(tier: Tier) -> Part<'static, LockStep> {
    Part {
        name: "edit-after-resize-lockstep",
        sys: &SYS_RESIZE,
        cfgs: match tier {
            Tier::Quick => cfgs(&[(8, 2), (3, 2)], &[None]),
            Tier::Thorough => cfgs(&[(8, 2), (3, 2), (7, 3), (16, 2), (15, 2)], &[None]),
        },
        alphabet: &alpha_resize,
        depth: tier.pick(4, 5),
        seconds: tier.pick(15.0, 1800.0),
        validated: true,
        nontrivial: Some("lockstep_transitions"),
    }
}

fn alpha_wide(cfg: &Cfg) -> Vec<Op> {
    super::sweep::layered(super::sweep::wide_placements(cfg), super::sweep::wide_edit_funcs(cfg))
}

pub fn run(ctx: &Ctx) -> Report {
    let mut rep = Report::new();
    let (a, b) = parts!(ctx.tier, &SYS, &SYS_BLANK);
    run_part(ctx, &mut rep, &a);
    run_part(ctx, &mut rep, &b);
    run_part(ctx, &mut rep, &medium_part(ctx.tier));
    run_part(ctx, &mut rep, &super::sweep::sweep_part("edit-large-screen-parameter-sweep", &SYS_SWEEP, &alpha_sweep, ctx.tier));
    run_part(ctx, &mut rep, &super::sweep::wide_part_on("edit-realistic-screen-parameter-sweep", &SYS_SWEEP, &alpha_wide, wide_cfgs(ctx.tier), ctx.tier));
    run_part(ctx, &mut rep, &super::sweep::wide_part_on("edit-realistic-screen-sparse-content", &SYS_SPARSE, &alpha_wide, wide_cfgs(ctx.tier), ctx.tier));
    run_part(ctx, &mut rep, &resize_part(ctx.tier));
    run_part(ctx, &mut rep, &feed_part(ctx.tier));
    rep.rule = "lock-step BFS of (real Vt, reference terminal) from a screen completely filled with distinct letters (all rows soft-wrapped) and from a blank screen: ED/EL x selectors {default,0,1,2}, ECH/ICH/DCH x counts {default,0,1,2,w-1,w,w+1,65535}, DECALN, with the cursor on every cell and in the wrap-pending column, three pens; every cell of lines(), the cursor (exact, incl. the pending column) and the specified wrap marks are compared after every transition".into();
    rep.assumptions = vec!["erase extents are computed from the reported column (R2); marks after EL 1 / ED 1 on the cursor row, ICH and DECALN are adopted".into()];
    rep
}

pub fn replay(ctx: &Ctx, v: &Value) -> bool {
    let tier = if v["tier"] == "thorough" { Tier::Thorough } else { Tier::Quick };
    let (a, b) = parts!(tier, &SYS, &SYS_BLANK);
    match v["part"].as_str().unwrap_or("") {
        "edit-lockstep-medium-screen" => replay_part(ctx, &medium_part(tier), v),
        "edit-large-screen-parameter-sweep" => replay_part(ctx, &super::sweep::sweep_part("edit-large-screen-parameter-sweep", &SYS_SWEEP, &alpha_sweep, tier), v),
        "edit-realistic-screen-parameter-sweep" => replay_part(ctx, &super::sweep::wide_part_on("edit-realistic-screen-parameter-sweep", &SYS_SWEEP, &alpha_wide, wide_cfgs(tier), tier), v),
        "edit-realistic-screen-sparse-content" => replay_part(ctx, &super::sweep::wide_part_on("edit-realistic-screen-sparse-content", &SYS_SPARSE, &alpha_wide, wide_cfgs(tier), tier), v),
        "edit-after-resize-lockstep" => replay_part(ctx, &resize_part(tier), v),
        "edit-lockstep-through-feed" => replay_part(ctx, &feed_part(tier), v),
        "edit-lockstep-filled-screen" => replay_part(ctx, &a, v),
        _ => replay_part(ctx, &b, v),
    }
}
