//! C15 — changed-line reports are sound.

use crate::alphabets::*;
use crate::engine::{Out, System};
use crate::obs::fingerprint;
use crate::ops::*;
use crate::report::*;
use avt::{Line, Vt};
use serde_json::Value;

pub struct Sys;

impl System for Sys {
    type St = Vt;
    fn init(&self, cfg: &Cfg) -> Vt {
        // flush the initial all-dirty flags so every later call starts clean
        let mut vt = cfg.build();
        let _ = vt.feed_str("");
        vt
    }
    fn step(&self, _cfg: &Cfg, vt: &mut Vt, op: &Op, out: Option<&mut Out>) {
        let pre: Option<Vec<Line>> = out.as_ref().map(|_| vt.view().to_vec());
        let ap = apply(vt, op);
        if let (Some(out), Some(pre)) = (out, pre) {
            if !ap.reported {
                return;
            }
            out.count("calls_checked");
            let post = vt.view();
            let mut differing = 0;
            for (row, line) in post.iter().enumerate() {
                let same = row < pre.len() && pre[row].cells() == line.cells();
                if !same {
                    differing += 1;
                    if !ap.changed.contains(&row) {
                        out.violate(
                            "C15",
                            "unreported-changed-row",
                            format!(
                                "row {} changed ({:?} -> {:?}) but Changes.lines = {:?}",
                                row,
                                pre.get(row).map(|l| l.text()),
                                line.text(),
                                ap.changed
                            ),
                        );
                        return;
                    }
                }
            }
            if differing > 0 {
                out.count("calls_with_changed_rows");
            }
            out.obs_hash = Some(crate::obs::hash_obs(&crate::obs::obs(vt)));
        }
    }
    fn key(&self, vt: &Vt) -> u128 {
        fingerprint(vt)
    }
}

fn alpha(cfg: &Cfg) -> Vec<Op> {
    let mut v = a_all(cfg, &[(1, 1), (2, 2), (3, 2), (1, 4), (4, 3), (2, 3)], true);
    // feed() per char leaves dirty flags behind; the next reported call must still be sound
    v.push(t("bcd").kind(Kind::FeedChars));
    v.push(c(Cmd::Ed(Some(2))).kind(Kind::FeedChars));
    v.push(c(lfs(2)).kind(Kind::FeedDrop));
    v.push(Op::resize(2, 2).kind(Kind::ResizeDrop));
    v
}

fn alpha_deep(cfg: &Cfg) -> Vec<Op> {
    a_altresize(cfg, &[(1, 1), (2, 2), (3, 2), (2, 3), (3, 3)])
}

/// long save / alternate-screen / resize chains
fn deep_part(tier: Tier) -> Part<'static, Sys> {
    Part {
        name: "alt-resize-deep",
        sys: &Sys,
        cfgs: match tier {
            Tier::Quick => cfgs(&[(2, 2), (3, 2)], &[None, Some(0)]),
            Tier::Thorough => cfgs(&[(2, 2), (3, 2), (1, 2), (2, 3)], &[None, Some(0), Some(2)]),
        },
        alphabet: &alpha_deep,
        depth: tier.pick(5, 7),
        seconds: tier.pick(25.0, 1800.0),
        validated: true,
        nontrivial: Some("calls_with_changed_rows"),
    }
}

macro_rules! parts {
    ($tier:expr) => {{
        let tier: Tier = $tier;
        Part {
            name: "all-functions",
            sys: &Sys,
            cfgs: match tier {
                Tier::Quick => cfgs(S4, &[None, Some(0)]),
                Tier::Thorough => cfgs(S4, &[None, Some(0), Some(1)]),
            },
            alphabet: &alpha,
            depth: tier.pick(3, 4),
            seconds: tier.pick(35.0, 1800.0),
            validated: true,
            nontrivial: Some("calls_with_changed_rows"),
        }
    }};
}

pub fn run(ctx: &Ctx) -> Report {
    let mut rep = Report::new();
    let p = parts!(ctx.tier);
    run_part(ctx, &mut rep, &p);
    run_part(ctx, &mut rep, &deep_part(ctx.tier));
    rep.rule = "BFS over op histories; every feed_str/resize transition compares the view before and after the call cell by cell (char + pen) against Changes.lines; non-trivial = calls after which at least one visible row differs".into();
    rep.assumptions = vec![
        "only cells (char + pen) are compared, not soft-wrap marks (the statement says cells)".into(),
        "a row index that did not exist before the call counts as changed".into(),
    ];
    rep
}

pub fn replay(ctx: &Ctx, v: &Value) -> bool {
    let tier = if v["tier"] == "thorough" { Tier::Thorough } else { Tier::Quick };
    if v["part"] == "alt-resize-deep" {
        return replay_part(ctx, &deep_part(tier), v);
    }
    let p = parts!(tier);
    replay_part(ctx, &p, v)
}
