//! C15 — changed-line reports are sound.

use crate::alphabets::*;
use crate::engine::{Out, System};
use crate::obs::fingerprint;
use crate::ops::*;
use crate::report::*;
use avt::{Line, Vt};
use serde_json::Value;

pub struct Sys;

impl System for Sys {
    type St = Vt;
    fn init(&self, cfg: &Cfg) -> Vt {
        // flush the initial all-dirty flags so every later call starts clean
        let mut vt = cfg.build();
        let _ = vt.feed_str("");
        vt
    }
    fn step(&self, _cfg: &Cfg, vt: &mut Vt, op: &Op, out: Option<&mut Out>) {
        judged_step(vt, op, out)
    }
    fn key(&self, vt: &Vt) -> u128 {
        fingerprint(vt)
    }
}

/// Same oracle from a screen whose rows all differ from their neighbours (so that every
/// shifted row is a changed row), on tall screens.
pub struct SysTall;

impl System for SysTall {
    type St = Vt;
    fn init(&self, cfg: &Cfg) -> Vt {
        let mut vt = cfg.build();
        let mut s = String::new();
        for r in 0..cfg.rows {
            s.push_str(&format!("\x1b[{};1H", r + 1));
            for k in 0..cfg.cols.min(2) {
                s.push(char::from_u32('A' as u32 + ((r / (1 + 25 * k)) % 26) as u32).unwrap());
            }
        }
        s.push_str("\x1b[H");
        let _ = vt.feed_str(&s);
        let _ = vt.feed_str("");
        vt
    }
    fn step(&self, _cfg: &Cfg, vt: &mut Vt, op: &Op, out: Option<&mut Out>) {
        judged_step(vt, op, out)
    }
    fn key(&self, vt: &Vt) -> u128 {
        fingerprint(vt)
    }
}

fn judged_step(vt: &mut Vt, op: &Op, out: Option<&mut Out>) {
    {
        let pre: Option<Vec<Line>> = out.as_ref().map(|_| vt.view().to_vec());
        let ap = apply(vt, op);
        if let (Some(out), Some(pre)) = (out, pre) {
            if !ap.reported {
                return;
            }
            out.count("calls_checked");
            let post = vt.view();
            let mut differing = 0;
            for (row, line) in post.iter().enumerate() {
                let same = row < pre.len() && pre[row].cells() == line.cells();
                if !same {
                    differing += 1;
                    if !ap.changed.contains(&row) {
                        out.violate(
                            "C15",
                            "unreported-changed-row",
                            format!(
                                "row {} changed ({:?} -> {:?}) but Changes.lines = {:?}",
                                row,
                                pre.get(row).map(|l| l.text()),
                                line.text(),
                                ap.changed
                            ),
                        );
                        return;
                    }
                }
            }
            if differing > 0 {
                out.count("calls_with_changed_rows");
            }
            out.obs_hash = Some(crate::obs::hash_obs(&crate::obs::obs(vt)));
        }
    }
}

/// Every single-row function at every row, and every region function for region
/// bounds (a, b): all pairs on screens of up to 40 rows, and on taller ones all pairs
/// with a in {1, 2} or b in {a+1, rows-1, rows} (every b is reached, every a is reached).
fn alpha_tall(cfg: &Cfg) -> Vec<Op> {
    let rows = cfg.rows;
    let mut v: Vec<Op> = vec![];
    for a in 1..=rows {
        for tail in ["x", "\x1b[K", "\x1b[J", "\x1b[1J", "\x1b[L", "\x1b[M", "\x1b[P", "\x1b[@", "\x1b[X", "\x1bM", "\n", "\x1b[2Cyz"] {
            v.push(Op::raw(&format!("\x1b[{};1H{}", a, tail)));
        }
        for b in a + 1..=rows {
            let all_pairs = rows <= 40 || a <= 2 || b == a + 1 || b + 1 >= rows;
            if !all_pairs {
                continue;
            }
            let r = format!("\x1b[{};{}r", a, b);
            v.push(Op::raw(&format!("{}\x1b[S", r)));
            v.push(Op::raw(&format!("{}\x1b[T", r)));
            v.push(Op::raw(&format!("{}\x1b[{};1H\n", r, b)));
            v.push(Op::raw(&format!("{}\x1b[{};1H\x1bM", r, a)));
            v.push(Op::raw(&format!("{}\x1b[{};1H\x1b[L", r, a)));
            v.push(Op::raw(&format!("{}\x1b[{};2Hxyz", r, b)));
        }
    }
    for s in ["\x1b[?1049h", "\x1b[?47h", "\x1b[2J", "\x1bc", "\x1b#8", "\x1b[!p", "\x1b[?6h\x1b[2;1Hq"] {
        v.push(Op::raw(s));
    }
    for (c2, r2) in [(cfg.cols, rows + 1), (cfg.cols, rows.saturating_sub(1).max(1)), (cfg.cols + 1, rows), (1, rows), (cfg.cols, rows / 2 + 1), (cfg.cols, rows * 2)] {
        v.push(Op::resize(c2, r2));
    }
    v
}

/// A call may hold any number of functions. From every state reachable by two (thorough:
/// three) single-function calls on a filled 3x5 screen, EVERY concatenation of 2..=4 base
/// sequences is delivered as ONE feed_str call and judged by the same oracle.
pub struct SysMulti {
    composites: Vec<Op>,
    unit_composites: Vec<Op>,
}

const MULTI_BASE: &[&str] = &[
    "\n", "\x1bM", "\x1b[!p", "\x1b[2;3r", "\x1b[H", "\x1b[5;1H", "\x1b[3;1H", "x", "\x1b[S", "\x1b[L", "\x1b[?1049h", "\x1b[?1049l",
    "\x1b[r", "\x1b[2J", "\x1b[?6h",
];

fn multi_base(tier: Tier) -> &'static [&'static str] {
    match tier {
        Tier::Quick => MULTI_BASE,
        Tier::Thorough => MULTI_BASE,
    }
}

impl SysMulti {
    fn new(tier: Tier) -> SysMulti {
        let base = multi_base(tier);
        let mut out: Vec<String> = vec![];
        let mut level: Vec<String> = base.iter().map(|s| s.to_string()).collect();
        for _ in 2..=4 {
            let mut next = vec![];
            for l in &level {
                for b in base {
                    next.push(format!("{}{}", l, b));
                }
            }
            out.extend(next.iter().cloned());
            level = next;
        }
        // second family, from the filled start screen only: every sequence of <= 4 UNITS, a unit
        // being "go to row r, then mark" with the marks that cover a RANGE of rows from the
        // cursor (ED 0: to the end, ED 1: from the start, a text that wraps over two rows) or
        // one row (a character, EL) - overlapping, nested and touching ranges in every order
        let mut units: Vec<String> = vec![];
        for r in 1..=5 {
            for a in ["\x1b[J", "\x1b[1J", "x", "wxyz", "\x1b[K"] {
                units.push(format!("\x1b[{};1H{}", r, a));
            }
        }
        let mut uc: Vec<String> = vec![];
        let mut level: Vec<String> = units.clone();
        for _ in 2..=tier.pick(4, 5) {
            let mut next = vec![];
            for l in &level {
                for u in &units {
                    next.push(format!("{}{}", l, u));
                }
            }
            uc.extend(next.iter().cloned());
            level = next;
        }
        SysMulti { composites: out.iter().map(|s| Op::raw(s)).collect(), unit_composites: uc.iter().map(|s| Op::raw(s)).collect() }
    }
}

impl System for SysMulti {
    type St = Vt;
    fn init(&self, cfg: &Cfg) -> Vt {
        SysTall.init(cfg)
    }
    fn step(&self, _cfg: &Cfg, vt: &mut Vt, op: &Op, out: Option<&mut Out>) {
        judged_step(vt, op, out)
    }
    fn key(&self, vt: &Vt) -> u128 {
        fingerprint(vt)
    }
    fn on_state(&self, _cfg: &Cfg, h: &[&Op], _vt: &mut Vt, rebuild: &dyn Fn() -> Vt, out: &mut Out) {
        let extra: &[Op] = if h.is_empty() { &self.unit_composites } else { &[] };
        for comp in self.composites.iter().chain(extra.iter()) {
            let mut v = rebuild();
            let before = out.violations.len();
            crate::engine::watch_note(&comp.text);
            judged_step(&mut v, comp, Some(out));
            out.count("multi_function_calls");
            if out.violations.len() > before {
                // name the call: the history shown is the state it was made in
                if let Some(last) = out.violations.last_mut() {
                    last.detail = format!("in ONE call {}: {}", esc(&comp.text), last.detail);
                }
                return;
            }
        }
    }
}

fn alpha_multi_q(_cfg: &Cfg) -> Vec<Op> {
    multi_base(Tier::Quick).iter().map(|s| Op::raw(s)).collect()
}
fn alpha_multi_t(_cfg: &Cfg) -> Vec<Op> {
    multi_base(Tier::Thorough).iter().map(|s| Op::raw(s)).collect()
}

fn multi_part<'a>(tier: Tier, sys: &'a SysMulti) -> Part<'a, SysMulti> {
    Part {
        name: "multi-function-calls",
        sys,
        cfgs: cfgs(&[(3, 5)], &[Some(0)]),
        alphabet: match tier {
            Tier::Quick => &alpha_multi_q,
            Tier::Thorough => &alpha_multi_t,
        },
        depth: tier.pick(2, 3),
        seconds: tier.pick(25.0, 2400.0),
        validated: true,
        nontrivial: Some("multi_function_calls"),
    }
}

/// Wide screens: every count 0..=cols+2 of the in-row functions (REP, ICH, DCH, ECH, a
/// text of that length), each in a call of its own after the cursor was placed (and a
/// character printed) by an earlier call.
fn alpha_wide(cfg: &Cfg) -> Vec<Op> {
    let cols = cfg.cols;
    let mut v: Vec<Op> = vec![];
    for c0 in [1, 2, cols / 2, cols - 1] {
        v.push(Op::raw(&format!("\x1b[1;{}H=", c0)));
        v.push(Op::raw(&format!("\x1b[2;{}H", c0)));
    }
    v.push(Op::raw("\x1b[4h"));
    v.push(Op::raw("\x1b[?7l"));
    for n in 0..=cols + 2 {
        for f in ['b', '@', 'P', 'X', 'C', 'D'] {
            v.push(Op::raw(&format!("\x1b[{}{}", n, f)));
        }
        if n >= 2 {
            let s: String = (0..n).map(|i| char::from_u32('a' as u32 + (i % 26) as u32).unwrap()).collect();
            v.push(Op::raw(&s));
        }
    }
    v
}

fn wide_part(tier: Tier) -> Part<'static, SysTall> {
    Part {
        name: "wide-screens",
        sys: &SysTall,
        cfgs: match tier {
            Tier::Quick => cfgs(&[(18, 2), (40, 2), (66, 3)], &[Some(0)]),
            Tier::Thorough => cfgs(&[(17, 2), (18, 2), (33, 2), (40, 2), (64, 2), (66, 3), (80, 3), (130, 2)], &[Some(0)]),
        },
        alphabet: &alpha_wide,
        depth: 2,
        seconds: tier.pick(15.0, 1800.0),
        validated: true,
        nontrivial: Some("calls_with_changed_rows"),
    }
}

fn tall_rows(tier: Tier) -> Vec<(usize, usize)> {
    let rows: Vec<usize> = match tier {
        Tier::Quick => (5..=18).chain([23, 24, 25, 31, 32, 33, 63, 64, 65, 66, 127, 128, 129, 130]).collect(),
        Tier::Thorough => (5..=136).chain([191, 192, 193, 255, 256, 257]).collect(),
    };
    rows.into_iter().map(|r| (2usize, r)).collect()
}

fn tall_part(tier: Tier) -> Part<'static, SysTall> {
    Part {
        name: "tall-screens",
        sys: &SysTall,
        cfgs: cfgs(&tall_rows(tier), &[Some(0)]),
        alphabet: &alpha_tall,
        depth: 1,
        seconds: tier.pick(15.0, 1800.0),
        validated: true,
        nontrivial: Some("calls_with_changed_rows"),
    }
}

fn tall_part2(tier: Tier) -> Part<'static, SysTall> {
    Part {
        name: "tall-screens-depth2",
        sys: &SysTall,
        cfgs: match tier {
            Tier::Quick => cfgs(&[(2, 9), (2, 12)], &[Some(0)]),
            Tier::Thorough => cfgs(&[(2, 9), (2, 10), (2, 12), (3, 17), (2, 20)], &[Some(0), None]),
        },
        alphabet: &alpha_tall,
        depth: 2,
        seconds: tier.pick(15.0, 1800.0),
        validated: true,
        nontrivial: Some("calls_with_changed_rows"),
    }
}

fn alpha(cfg: &Cfg) -> Vec<Op> {
    let mut v = a_all(cfg, &[(1, 1), (2, 2), (3, 2), (1, 4), (4, 3), (2, 3)], true);
    // feed() per char leaves dirty flags behind; the next reported call must still be sound
    v.push(t("bcd").kind(Kind::FeedChars));
    v.push(c(Cmd::Ed(Some(2))).kind(Kind::FeedChars));
    v.push(c(lfs(2)).kind(Kind::FeedDrop));
    v.push(Op::resize(2, 2).kind(Kind::ResizeDrop));
    v
}

fn alpha_deep(cfg: &Cfg) -> Vec<Op> {
    a_altresize(cfg, &[(1, 1), (2, 2), (3, 2), (2, 3), (3, 3)])
}

/// long save / alternate-screen / resize chains
fn deep_part(tier: Tier) -> Part<'static, Sys> {
    Part {
        name: "alt-resize-deep",
        sys: &Sys,
        cfgs: match tier {
            Tier::Quick => cfgs(&[(2, 2), (3, 2)], &[None, Some(0)]),
            Tier::Thorough => cfgs(&[(2, 2), (3, 2), (1, 2), (2, 3)], &[None, Some(0), Some(2)]),
        },
        alphabet: &alpha_deep,
        depth: tier.pick(5, 7),
        seconds: tier.pick(25.0, 1800.0),
        validated: true,
        nontrivial: Some("calls_with_changed_rows"),
    }
}

macro_rules! parts {
    ($tier:expr) => {{
        let tier: Tier = $tier;
        Part {
            name: "all-functions",
            sys: &Sys,
            cfgs: match tier {
                Tier::Quick => cfgs(S4, &[None, Some(0)]),
                Tier::Thorough => cfgs(S4, &[None, Some(0), Some(1)]),
            },
            alphabet: &alpha,
            depth: tier.pick(3, 4),
            seconds: tier.pick(35.0, 1800.0),
            validated: true,
            nontrivial: Some("calls_with_changed_rows"),
        }
    }};
}

pub fn run(ctx: &Ctx) -> Report {
    let mut rep = Report::new();
    let p = parts!(ctx.tier);
    run_part(ctx, &mut rep, &p);
    run_part(ctx, &mut rep, &deep_part(ctx.tier));
    run_part(ctx, &mut rep, &tall_part(ctx.tier));
    run_part(ctx, &mut rep, &tall_part2(ctx.tier));
    run_part(ctx, &mut rep, &wide_part(ctx.tier));
    let sm = SysMulti::new(ctx.tier);
    run_part(ctx, &mut rep, &multi_part(ctx.tier, &sm));
    rep.rule = "BFS over op histories; every feed_str/resize transition compares the view before and after the call cell by cell (char + pen) against Changes.lines; non-trivial = calls after which at least one visible row differs; tall-screens: from a screen whose neighbouring rows all differ, 2 columns x 5..130 rows (thorough: every height 5..136 and around 192, 256), every single-row function at every row and every region function (SU, SD, LF on the bottom margin, RI on the top margin, IL, wrap on the bottom margin) for the region bounds listed in DESIGN, screen switches, resets and resizes; depth 2 on 9- and 12-row screens; wide-screens: 18..66 (thorough ..130) columns, every count 0..=cols+2 of REP/ICH/DCH/ECH/CUF/CUB and every text length in a call of its own after a placement call, depth 2; multi-function-calls: from every state two (thorough three) calls deep on a filled 3x5 screen, every concatenation of 2..=4 of 15 base sequences delivered as ONE call".into();
    rep.assumptions = vec![
        "only cells (char + pen) are compared, not soft-wrap marks (the statement says cells)".into(),
        "a row index that did not exist before the call counts as changed".into(),
    ];
    rep
}

pub fn replay(ctx: &Ctx, v: &Value) -> bool {
    let tier = if v["tier"] == "thorough" { Tier::Thorough } else { Tier::Quick };
    if v["part"] == "alt-resize-deep" {
        return replay_part(ctx, &deep_part(tier), v);
    }
    if v["part"] == "tall-screens" {
        return replay_part(ctx, &tall_part(Tier::Thorough), v);
    }
    if v["part"] == "multi-function-calls" {
        let sm = SysMulti::new(tier);
        return replay_part(ctx, &multi_part(tier, &sm), v);
    }
    if v["part"] == "wide-screens" {
        return replay_part(ctx, &wide_part(Tier::Thorough), v);
    }
    if v["part"] == "tall-screens-depth2" {
        return replay_part(ctx, &tall_part2(Tier::Thorough), v);
    }
    let p = parts!(tier);
    replay_part(ctx, &p, v)
}
