//! C19 — RIS returns the terminal to its power-on state from anywhere.

use super::c11::{a_11, a_11_deep};
use crate::engine::{Out, System};
use crate::obs::{fingerprint, obs, obs_full};
use crate::ops::*;
use crate::probes::battery;
use crate::report::*;
use avt::Vt;
use serde_json::Value;

pub struct Sys<'a> {
    pub conts: &'a (dyn Fn(&Cfg) -> Vec<String> + Sync),
}

impl<'a> System for Sys<'a> {
    type St = Vt;
    fn init(&self, cfg: &Cfg) -> Vt {
        cfg.build()
    }
    fn step(&self, _cfg: &Cfg, vt: &mut Vt, op: &Op, out: Option<&mut Out>) {
        let _ = apply(vt, op);
        // (read and thrown away: asking does not change what the reset has to undo)
        let _ = (vt.dump(), vt.text());
        if let Some(out) = out {
            out.obs_hash = Some(crate::obs::hash_obs(&obs(vt)));
        }
    }
    fn key(&self, vt: &Vt) -> u128 {
        fingerprint(vt)
    }
    fn on_state(&self, cfg: &Cfg, hist: &[&Op], vt: &mut Vt, rebuild: &dyn Fn() -> Vt, out: &mut Out) {
        let size = vt.size();
        out.count("states_reset");
        let fresh = || build_vt(size.0, size.1, cfg.limit);
        // flush both so that change-report bookkeeping is comparable
        let _ = vt.feed_str("\x1bc");
        let f = fresh();
        out.count("comparisons");
        let (a, b) = (obs_full(vt), obs_full(&f));
        if a != b {
            out.violate(
                "C19",
                "ris-vs-fresh",
                format!("after ESC c: {:?} cursor {:?} ckm {}; fresh: {:?} cursor {:?} ckm {}", a.rows, a.cursor, a.ckm, b.rows, b.cursor, b.ckm),
            );
            return;
        }
        let (da, db) = (vt.dump(), f.dump());
        if da != db {
            out.violate("C19", "ris-vs-fresh-dump", format!("dump after ESC c = {}, fresh = {}", esc(&da), esc(&db)));
            return;
        }
        let conts = (self.conts)(cfg);
        let probes = battery(size.0, size.1);
        for p in probes.iter().chain(conts.iter()) {
            let mut s2 = rebuild();
            let _ = s2.feed_str("\x1bc");
            let _ = s2.feed_str(p);
            let mut f2 = fresh();
            let _ = f2.feed_str(p);
            out.count("comparisons");
            let (a, b) = (obs_full(&s2), obs_full(&f2));
            if a != b {
                out.violate(
                    "C19",
                    "ris-then-input",
                    format!("ESC c then {}: {:?} cursor {:?} ckm {}; fresh then same: {:?} cursor {:?} ckm {}", esc(p), a.rows, a.cursor, a.ckm, b.rows, b.cursor, b.ckm),
                );
                return;
            }
        }
        // RIS delivered char by char from the interrupted parser state
        let mut s3 = rebuild();
        s3.feed('\x1b');
        s3.feed('c');
        let _ = s3.feed_str("");
        if obs_full(&s3) != obs_full(&fresh()) || s3.dump() != db {
            out.violate("C19", "ris-per-char", "ESC c fed with feed() differs from a fresh terminal".into());
            return;
        }
        // the whole history through feed() (which never trims), ESC c through feed(), and
        // the comparison made at once - before any feed_str call could tidy up
        let mut s4 = cfg.build();
        for op in hist {
            match op.cmd {
                Cmd::Resize(c, r) => {
                    let _ = s4.resize(c, r);
                }
                _ => {
                    for ch in op.text.chars() {
                        s4.feed(ch);
                    }
                }
            }
        }
        s4.feed('\x1b');
        s4.feed('c');
        out.count("comparisons");
        let (a, b) = (obs_full(&s4), obs_full(&fresh()));
        if a != b {
            out.violate(
                "C19",
                "ris-after-feed-only-history",
                format!("history and ESC c fed with feed(): lines() {:?} cursor {:?}; fresh: {:?} cursor {:?}", a.rows, a.cursor, b.rows, b.cursor),
            );
        }
    }
}

/// continuations of more than one step: what only shows on the second screen, after a
/// scroll there, after a restore
fn conts_composite() -> Vec<String> {
    vec![
        "\x1b[?1047h1\r\n2\r\n3\r\n4\r\n5".into(),
        "\x1b[?1049ha\n\n\n\nb\x1b[?1049lc".into(),
        "\x1b[?47h\x1b[2;2Hx\x1bM\x1bM\x1bM".into(),
        "\x1b8x\x1b[?1049h\x1b8y".into(),
        "\ta\tb\x1b[3Ic\x1b[2Zd".into(),
        "\x1b[?1047h\x1bc\x1b[?1047hq\n\n\n\n".into(),
    ]
}
fn conts_full(cfg: &Cfg) -> Vec<String> {
    let mut v: Vec<String> = a_11(cfg).into_iter().filter(|o| !o.is_resize()).map(|o| o.text).collect();
    v.extend(conts_composite());
    v
}
fn conts_deep(cfg: &Cfg) -> Vec<String> {
    let mut v: Vec<String> = a_11_deep(cfg).into_iter().filter(|o| !o.is_resize()).map(|o| o.text).collect();
    v.extend(conts_composite());
    v
}

macro_rules! parts {
    ($tier:expr, $sa:expr, $sb:expr) => {{
        let tier: Tier = $tier;
        let full = Part {
            name: "full-alphabet",
            sys: $sa,
            cfgs: match tier {
                Tier::Quick => cfgs(&[(3, 3), (2, 2), (9, 2)], &[None, Some(0)]),
                Tier::Thorough => cfgs(&[(3, 3), (2, 2), (4, 3), (9, 2)], &[None, Some(0), Some(1)]),
            },
            alphabet: &a_11,
            depth: tier.pick(3, 4),
            seconds: tier.pick(30.0, 2400.0),
            validated: true,
            nontrivial: Some("states_reset"),
        };
        let deep = Part {
            name: "origin-margins-save-alt-resize",
            sys: $sb,
            cfgs: match tier {
                Tier::Quick => cfgs(&[(3, 3)], &[None]),
                Tier::Thorough => cfgs(&[(3, 3), (2, 2), (4, 3)], &[None, Some(0)]),
            },
            alphabet: &a_11_deep,
            depth: tier.pick(5, 7),
            seconds: tier.pick(20.0, 2400.0),
            validated: true,
            nontrivial: Some("states_reset"),
        };
        (full, deep)
    }};
}

/// What the parser may have collected when ESC c arrives: every string of up to
/// `n` characters over the parameter / sub-parameter / marker / intermediate / final
/// bytes, after each introducer - finished or unfinished sequences and control strings.
fn residues(n: usize) -> Vec<String> {
    let bytes = ['0', '7', ':', ';', '?', '$', 'm', 'H', 'q'];
    let mut bodies: Vec<String> = vec![String::new()];
    let mut level: Vec<String> = vec![String::new()];
    for _ in 0..n {
        let mut next = vec![];
        for b in &level {
            for c in bytes {
                next.push(format!("{}{}", b, c));
            }
        }
        bodies.extend(next.iter().cloned());
        level = next;
    }
    let mut v = vec![];
    for intro in ["\x1b[", "\u{9b}", "\x1bP", "\u{90}", "\x1b]", "\x1b_"] {
        for b in &bodies {
            v.push(format!("{}{}", intro, b));
        }
    }
    v
}

/// The terminal side of RIS is explored by the BFS parts; this part enumerates the
/// PARSER side: whatever was collected before ESC c, every continuation afterwards
/// must be treated exactly as by a fresh terminal.
fn parser_residue(ctx: &Ctx, rep: &mut Report) {
    use rayon::prelude::*;
    let res = residues(ctx.tier.pick(3, 4));
    let (cols, rows) = (5usize, 3usize);
    let mut conts: Vec<String> = battery(cols, rows);
    for s in ["\x1b[2;3Hx", "\x1b[3Cx", "\x1b[2Bx", "\x1b[1;31mx", "\u{9b}2;3Hx", "\u{9b}4mx", "\x1b[2;3r\x1b[?6h\x1b[Hx", "\x1b[?7l\x1b[9Cxy",
              "\x1b[38:5:3mx", "\x1b[38;5;3mx", "\x1b[2 qx", "\x1b[!px", "\x1b[?25lx", "\x1b(0q", "2;3Hx", ";3Hx", ":3mx", "$x", "mx", "\x07x", "\u{9c}x", "\x1b\\x"] {
        conts.push(s.to_string());
    }
    let fresh_obs: Vec<_> = conts
        .iter()
        .map(|c| {
            let mut f = build_vt(cols, rows, None);
            let _ = f.feed_str(c);
            (obs_full(&f), f.dump())
        })
        .collect();
    let bad: Vec<(String, String)> = res
        .par_iter()
        .filter_map(|r| {
            for (c, want) in conts.iter().zip(fresh_obs.iter()) {
                let got = crate::engine::guarded(|| {
                    let mut vt = build_vt(cols, rows, None);
                    let _ = vt.feed_str(r);
                    let _ = vt.feed_str("\x1bc");
                    let _ = vt.feed_str(c);
                    (obs_full(&vt), vt.dump())
                });
                match got {
                    Ok(g) if g == *want => {}
                    Ok(g) => {
                        return Some((r.clone(), format!("{} ESC c {}: {:?} cursor {:?}; fresh terminal given {}: {:?} cursor {:?}", esc(r), esc(c), g.0.rows, g.0.cursor, esc(c), want.0.rows, want.0.cursor)))
                    }
                    Err(p) => return Some((r.clone(), format!("{} ESC c {}: panic: {}", esc(r), esc(c), p))),
                }
            }
            None
        })
        .collect();
    let n = res.len() as u64 * conts.len() as u64;
    rep.evaluations += n;
    rep.traces_validated += n;
    rep.transitions += n;
    rep.distinct_nontrivial += res.len() as u64;
    rep.parts.push(serde_json::json!({"part":"parser-residue","residues":res.len(),"max_residue_len":ctx.tier.pick(3, 4),"continuations":conts.len(),"comparisons":n,"violating":bad.len()}));
    println!("part parser-residue: {} residues x {} continuations, {} violating", res.len(), conts.len(), bad.len());
    for (r, e) in bad.iter().take(3) {
        emit_violation(ctx, rep, "C19", serde_json::json!({"part":"parser-residue","input":esc(r),"input_raw":r,"oracle":"ris-then-input","observed":e}));
    }
    if bad.len() > 3 {
        rep.violations += bad.len() as u64 - 3;
    }
}

/// ESC c on screens at and beyond the 16-bit boundary
fn extreme_sizes(ctx: &Ctx, rep: &mut Report) {
    let sizes: &[(usize, usize)] = &[(2, 65535), (2, 65536), (2, 65537), (2, 65538), (2, 70000), (65537, 2), (70000, 2), (300, 300)];
    let conts = ["", "\n\n\nx", "\x1b[99999;1Hx\ny", "\x1b[3;1H\x1bMz", "\x1b[5;5Hq\x1b[2J"];
    let mut n = 0u64;
    for &(c, r) in sizes {
        for cont in conts {
            let res = crate::engine::guarded(|| {
                let mut vt = build_vt(c, r, None);
                let _ = vt.feed_str("ab\x1b[2;5r\x1b[?6h\x1b[1;31mcd\x1b7\x1bH");
                let _ = vt.feed_str("\x1bc");
                let _ = vt.feed_str(cont);
                let mut f = build_vt(c, r, None);
                let _ = f.feed_str(cont);
                if obs(&vt) != obs(&f) {
                    return Some(format!("cursor {:?} vs fresh {:?} (or the visible rows differ)", obs(&vt).cursor, obs(&f).cursor));
                }
                if vt.dump() != f.dump() {
                    return Some("dump() differs from the fresh terminal's".to_string());
                }
                None
            });
            n += 1;
            let bad = match res {
                Ok(None) => None,
                Ok(Some(d)) => Some(d),
                Err(p) => Some(format!("panic: {}", p)),
            };
            if let Some(d) = bad {
                emit_violation(ctx, rep, "C19", serde_json::json!({"part":"extreme-sizes","size":[c, r],"input":esc(cont),"input_raw":cont,"oracle":"ris-vs-fresh","observed":format!("{}x{}: ESC c then {}: {}", c, r, esc(cont), d)}));
                rep.parts.push(serde_json::json!({"part":"extreme-sizes","cases":n}));
                return;
            }
        }
    }
    rep.evaluations += n;
    rep.traces_validated += n;
    rep.parts.push(serde_json::json!({"part":"extreme-sizes","sizes":sizes.len(),"cases":n}));
    println!("part extreme-sizes: {} cases", n);
}

/// "of the current size and scrollback configuration": after ESC c the scrollback limit is
/// the configured one. For every limit, every history of <= 2 steps over scrolling, screen
/// switches, resets and resizes, then ESC c, then numbered lines - one call per line and all
/// in one call - until well past the retention bound: all of lines() against a fresh
/// terminal given the same lines, after every call.
fn scrollback_configuration(ctx: &Ctx, rep: &mut Report) {
    use rayon::prelude::*;
    let limits: Vec<usize> = ctx.tier.pick(vec![0, 1, 9, 10, 11, 20, 100], vec![0, 1, 2, 5, 9, 10, 11, 19, 20, 21, 25, 50, 99, 100, 101, 200, 1000]);
    let sizes: &[(usize, usize)] = &[(3, 2), (8, 3)];
    let mut cases: Vec<(usize, (usize, usize), Vec<usize>)> = vec![];
    let nsteps = 7usize;
    for &l in &limits {
        for &sz in sizes {
            cases.push((l, sz, vec![]));
            for a in 0..nsteps {
                cases.push((l, sz, vec![a]));
                for b in 0..nsteps {
                    cases.push((l, sz, vec![a, b]));
                    if ctx.tier == Tier::Thorough {
                        for c in 0..nsteps {
                            cases.push((l, sz, vec![a, b, c]));
                        }
                    }
                }
            }
        }
    }
    let step = |vt: &mut Vt, k: usize, l: usize, sz: (usize, usize)| match k {
        0 => {
            let _ = vt.feed_str(&"x\r\n".repeat(l + l / 10 + sz.1 + 3));
        }
        1 => {
            let _ = vt.feed_str("\x1b[?1049h");
        }
        2 => {
            let _ = vt.feed_str("\x1b[?1049l");
        }
        3 => {
            let _ = vt.feed_str("\x1bc");
        }
        4 => {
            let _ = vt.resize(sz.0 + 1, sz.1 + 1);
        }
        5 => {
            let _ = vt.resize(sz.0, sz.1);
        }
        _ => {
            for ch in "y\r\nz\r\n\x1bc".chars() {
                vt.feed(ch);
            }
        }
    };
    let bad: Vec<String> = cases
        .par_iter()
        .filter_map(|(l, sz, hist)| {
            let r = crate::engine::guarded(|| {
                let mut vt = build_vt(sz.0, sz.1, Some(*l));
                for &k in hist {
                    step(&mut vt, k, *l, *sz);
                }
                let _ = vt.feed_str("\x1bc");
                let size = vt.size();
                let mut f = build_vt(size.0, size.1, Some(*l));
                let n = 2 * (*l + *l / 10) + sz.1 + 6;
                for i in 0..n {
                    let line = format!("{}\r\n", i % 10);
                    let _ = vt.feed_str(&line);
                    let _ = f.feed_str(&line);
                    let (a, b) = (obs_full(&vt), obs_full(&f));
                    if a != b {
                        return Some(format!("after line {}: lines() has {} rows, the fresh terminal's {} (or they differ in content)", i + 1, a.rows.len(), b.rows.len()));
                    }
                }
                // and all at once
                let mut vt2 = build_vt(sz.0, sz.1, Some(*l));
                for &k in hist {
                    step(&mut vt2, k, *l, *sz);
                }
                let all: String = (0..n).map(|i| format!("{}\r\n", i % 10)).collect();
                let _ = vt2.feed_str(&format!("\x1bc{}", all));
                let mut f2 = build_vt(size.0, size.1, Some(*l));
                let _ = f2.feed_str(&all);
                let (a, b) = (obs_full(&vt2), obs_full(&f2));
                if a != b {
                    return Some(format!("ESC c and {} lines in one call: lines() has {} rows, the fresh terminal's {}", n, a.rows.len(), b.rows.len()));
                }
                None
            });
            match r {
                Ok(None) => None,
                Ok(Some(d)) => Some(format!("limit {} size {}x{} history {:?} then ESC c: {}", l, sz.0, sz.1, hist, d)),
                Err(p) => Some(format!("limit {} size {}x{} history {:?}: panic: {}", l, sz.0, sz.1, hist, p)),
            }
        })
        .collect();
    let n = cases.len() as u64;
    rep.evaluations += n;
    rep.traces_validated += n;
    rep.transitions += n;
    rep.distinct_nontrivial += n;
    rep.parts.push(serde_json::json!({"part":"scrollback-configuration","limits":limits,"histories":cases.len(),"violating":bad.len()}));
    println!("part scrollback-configuration: {} histories, {} violating", cases.len(), bad.len());
    if let Some(d) = bad.first() {
        emit_violation(ctx, rep, "C19", serde_json::json!({"part":"scrollback-configuration","oracle":"ris-then-input","observed":d}));
        rep.violations += bad.len() as u64 - 1;
    }
}

/// inputs that are large in one dimension each: anything that counts, accumulates or caps
/// across calls has seen a lot before the reset and sees a lot after it
pub fn heavy_inputs(n: usize) -> Vec<(String, String)> {
    let pay = |k: usize| "p".repeat(k);
    let mut v: Vec<(String, String)> = vec![
        ("OSC payload, ESC \\".into(), format!("\x1b]52;{}\x1b\\", pay(n))),
        ("OSC payload, BEL".into(), format!("\x1b]0;{}\x07", pay(n))),
        ("8-bit OSC payload, 8-bit ST".into(), format!("\u{9d}0;{}\u{9c}", pay(n))),
        ("DCS payload, ESC \\".into(), format!("\x1bPq{}\x1b\\", pay(n))),
        ("8-bit DCS payload, 8-bit ST".into(), format!("\u{90}1;2${}\u{9c}", pay(n))),
        ("SOS payload".into(), format!("\x1bX{}\x1b\\", pay(n))),
        ("APC payload".into(), format!("\x1b_{}\u{9c}", pay(n))),
        ("CSI digits".into(), format!("\x1b[{}m", "1".repeat(n))),
        ("CSI parameters".into(), format!("\x1b[{}m", "1;".repeat(n))),
        ("CSI sub-parameters".into(), format!("\x1b[{}m", "1:".repeat(n))),
        ("CSI intermediates (ignored sequence)".into(), format!("\x1b[{}p", " ".repeat(n))),
        ("many short OSC strings".into(), "\x1b]0;t\x1b\\".repeat(n / 8)),
        ("many SGR sequences".into(), "\x1b[1m\x1b[m".repeat(n / 8)),
        ("many save / restore pairs".into(), "\x1b7\x1b8\x1b[s\x1b[u".repeat(n / 10)),
        ("printable text".into(), "t".repeat(n)),
        ("line feeds".into(), "\n".repeat(n)),
        ("tab stops set and cleared".into(), "\x1bH\x1b[g ".repeat(n / 8)),
        ("screen switches".into(), "\x1b[?1049h\x1b[?1049l".repeat(n / 16)),
        ("DEL and NUL".into(), "\x7f\0".repeat(n / 2)),
    ];
    // left open at the end: the reset (or whatever follows) has to end it
    v.push(("unterminated OSC".into(), format!("\x1b]0;{}", pay(n))));
    v.push(("unterminated DCS".into(), format!("\x1bP{}", pay(n))));
    v.push(("unterminated CSI".into(), format!("\x1b[{}", "1;".repeat(n / 2))));
    v
}

/// every heavy input before ESC c x every heavy input after it, compared with a fresh terminal
fn heavy_history(ctx: &Ctx, rep: &mut Report) {
    use rayon::prelude::*;
    let sizes: Vec<usize> = ctx.tier.pick(vec![40000], vec![40000, 70000, 140000]);
    let mut total = 0u64;
    for n in sizes {
        let heavy = heavy_inputs(n);
        let pairs: Vec<(usize, usize)> = (0..heavy.len()).flat_map(|a| (0..heavy.len()).map(move |b| (a, b))).collect();
        let bad: Vec<String> = pairs
            .par_iter()
            .filter_map(|&(a, b)| {
                let r = crate::engine::guarded(|| {
                    let mut vt = build_vt(6, 3, Some(10));
                    let _ = vt.feed_str(&heavy[a].1);
                    let _ = vt.feed_str("\x1bc");
                    let tail = format!("{}\x1b\\\r\nZ\x1b[2;2Hw", heavy[b].1);
                    let _ = &tail;
                    let _ = vt.feed_str(&tail);
                    let mut f = build_vt(6, 3, Some(10));
                    let _ = f.feed_str(&tail);
                    if obs_full(&vt) != obs_full(&f) {
                        return Some(format!("lines() {:?} cursor {:?}; fresh: {:?} cursor {:?}", obs_full(&vt).rows, obs_full(&vt).cursor, obs_full(&f).rows, obs_full(&f).cursor));
                    }
                    if vt.dump() != f.dump() {
                        return Some("dump() differs from the fresh terminal's".to_string());
                    }
                    // the reset in the MIDDLE of one long call (whatever a call does to get
                    // through a long input quickly, ESC c starts from the parser state the
                    // previous call ended in, and what follows it starts from ground)
                    let mut v2 = build_vt(6, 3, Some(10));
                    let _ = v2.feed_str(&heavy[a].1);
                    let short: String = heavy[b].1.chars().take(5000).collect();
                    let mut one = String::from("filler ");
                    one.push_str(&short);
                    one.push_str("\x1b\\\x1bc");
                    // (plain text first: an ESC would end whatever string the parser still is in)
                    one.push_str("ab\r\nZ\x1b[2;2Hw");
                    let _ = v2.feed_str(&one);
                    let mut f2 = build_vt(6, 3, Some(10));
                    let _ = f2.feed_str("ab\r\nZ\x1b[2;2Hw");
                    if obs_full(&v2) != obs_full(&f2) || v2.dump() != f2.dump() {
                        return Some(format!("with ESC c inside one call of {} characters: lines() {:?} cursor {:?}; fresh: {:?} cursor {:?}", one.chars().count(), obs_full(&v2).rows, obs_full(&v2).cursor, obs_full(&f2).rows, obs_full(&f2).cursor));
                    }
                    None
                });
                match r {
                    Ok(None) => None,
                    Ok(Some(d)) => Some(format!("{} of {} characters, ESC c, then {} of {} characters: {}", heavy[a].0, n, heavy[b].0, n, d)),
                    Err(p) => Some(format!("{} then ESC c then {} ({} characters): panic: {}", heavy[a].0, heavy[b].0, n, p)),
                }
            })
            .collect();
        total += pairs.len() as u64;
        if let Some(d) = bad.first() {
            emit_violation(ctx, rep, "C19", serde_json::json!({"part":"heavy-history","oracle":"ris-then-input","observed":d}));
            rep.violations += bad.len() as u64 - 1;
            break;
        }
    }
    rep.evaluations += total;
    rep.traces_validated += total;
    rep.transitions += total;
    rep.parts.push(serde_json::json!({"part":"heavy-history","pairs":total}));
    println!("part heavy-history: {} (heavy input, ESC c, heavy input) pairs", total);
}

/// "a freshly built terminal of the current size ... reacts to every subsequent input exactly
/// like the fresh one" - also to RESIZES: width chains w1 -> w2, ESC c, -> w3 against a fresh
/// terminal of width w2 resized to w3 (tab stops by hook and by HT / CHT / CBT walks, dump()).
fn reset_then_resize(ctx: &Ctx, rep: &mut Report) {
    use rayon::prelude::*;
    let n = ctx.tier.pick(34usize, 70usize);
    let mut cases: Vec<(usize, usize, usize)> = vec![];
    for a in 1..=n {
        for b in 1..=n {
            for c in 1..=n {
                if ctx.tier == Tier::Thorough || (a + b + c) % 3 == 0 || (a % 8 <= 1 && b % 8 <= 1) || c % 8 <= 1 {
                    cases.push((a, b, c));
                }
            }
        }
    }
    let bad: Vec<String> = cases
        .par_iter()
        .filter_map(|&(a, b, c)| {
            let r = crate::engine::guarded(|| {
                let mut vt = build_vt(a, 2, Some(0));
                let _ = vt.feed_str("x\x1b[3g\x1bH\x1b[?6h");
                let _ = vt.resize(b, 2);
                let _ = vt.feed_str("\x1bc");
                let _ = vt.resize(c, 2);
                let mut f = build_vt(b, 2, Some(0));
                let _ = f.resize(c, 2);
                let (mut ta, mut tb) = (vt.verif_state().tabs, f.verif_state().tabs);
                ta.sort();
                tb.sort();
                if ta != tb {
                    return Some(format!("tab stops {:?}, the fresh terminal's {:?}", ta, tb));
                }
                if vt.dump() != f.dump() {
                    return Some("dump() differs".to_string());
                }
                for walk in ["\r\x1b[3Ia", "\x1b[999C\x1b[2Zb", "\r\t\t\tc\x1b[g\r\t\td"] {
                    let _ = vt.feed_str(walk);
                    let _ = f.feed_str(walk);
                    if obs(&vt) != obs(&f) {
                        return Some(format!("after {}: cursor {:?}, the fresh terminal's {:?}", esc(walk), obs(&vt).cursor, obs(&f).cursor));
                    }
                }
                None
            });
            match r {
                Ok(None) => None,
                Ok(Some(d)) => Some(format!("{} columns resized to {}, ESC c, resized to {}: {}", a, b, c, d)),
                Err(p) => Some(format!("{} -> {} -> ESC c -> {}: panic: {}", a, b, c, p)),
            }
        })
        .collect();
    let n_cases = cases.len() as u64;
    rep.evaluations += n_cases;
    rep.traces_validated += n_cases;
    rep.transitions += n_cases * 3;
    rep.parts.push(serde_json::json!({"part":"reset-then-resize","widths_up_to":n,"chains":n_cases,"violating":bad.len()}));
    println!("part reset-then-resize: {} width chains, {} violating", n_cases, bad.len());
    if let Some(d) = bad.first() {
        emit_violation(ctx, rep, "C19", serde_json::json!({"part":"reset-then-resize","oracle":"ris-then-input","observed":d}));
        rep.violations += bad.len() as u64 - 1;
    }
}

pub fn run(ctx: &Ctx) -> Report {
    let mut rep = Report::new();
    let sa = Sys { conts: &conts_full };
    let sb = Sys { conts: &conts_deep };
    let (full, deep) = parts!(ctx.tier, &sa, &sb);
    run_part(ctx, &mut rep, &full);
    run_part(ctx, &mut rep, &deep);
    let cmp: u64 = rep.counters.iter().filter(|(k, _)| k.ends_with(".comparisons")).map(|(_, v)| *v).sum();
    rep.evaluations += cmp;
    rep.traces_validated = cmp;
    parser_residue(ctx, &mut rep);
    extreme_sizes(ctx, &mut rep);
    scrollback_configuration(ctx, &mut rep);
    heavy_history(ctx, &mut rep);
    reset_then_resize(ctx, &mut rep);
    rep.rule = "BFS over op histories (same alphabet as C11 incl. truncated sequences and resizes); at EVERY distinct state ESC c is applied and the result compared with a freshly built terminal of the current size and limit: all of lines(), cursor, cursor-key mode, dump(), then again after each probe of the battery and after every feed op of the alphabet; plus the parser side: every string of <= 3/4 parameter, sub-parameter, marker, intermediate and final bytes after each of six introducers, then ESC c, then every continuation of the battery and 22 parameter-sensitive ones, compared with a fresh terminal given the continuation alone".into();
    rep.assumptions = vec!["equivalence is observational (public API) plus dump() equality".into()];
    rep
}

pub fn replay(ctx: &Ctx, v: &Value) -> bool {
    let tier = if v["tier"] == "thorough" { Tier::Thorough } else { Tier::Quick };
    let sa = Sys { conts: &conts_full };
    let sb = Sys { conts: &conts_deep };
    let (full, deep) = parts!(tier, &sa, &sb);
    match v["part"].as_str().unwrap_or("") {
        "extreme-sizes" => {
            let mut rep = Report::new();
            extreme_sizes(ctx, &mut rep);
            rep.violations > 0
        }
        "scrollback-configuration" => {
            let mut rep = Report::new();
            let c2 = Ctx { id: ctx.id.clone(), tier, seed: 0, start: ctx.start, known: ctx.known.clone(), replay_dir: ctx.replay_dir.clone() };
            scrollback_configuration(&c2, &mut rep);
            rep.violations > 0
        }
        "reset-then-resize" => {
            let mut rep = Report::new();
            let c2 = Ctx { id: ctx.id.clone(), tier, seed: 0, start: ctx.start, known: ctx.known.clone(), replay_dir: ctx.replay_dir.clone() };
            reset_then_resize(&c2, &mut rep);
            rep.violations > 0
        }
        "heavy-history" => {
            let mut rep = Report::new();
            let c2 = Ctx { id: ctx.id.clone(), tier, seed: 0, start: ctx.start, known: ctx.known.clone(), replay_dir: ctx.replay_dir.clone() };
            heavy_history(&c2, &mut rep);
            rep.violations > 0
        }
        "parser-residue" => {
            let r = v["input_raw"].as_str().unwrap_or("").to_string();
            let mut rep = Report::new();
            let c2 = Ctx { id: ctx.id.clone(), tier: if v["tier"] == "thorough" { Tier::Thorough } else { Tier::Quick }, seed: 0, start: ctx.start, known: ctx.known.clone(), replay_dir: ctx.replay_dir.clone() };
            parser_residue(&c2, &mut rep);
            println!("replay of parser-residue {}: {} violating residues in the full enumeration", esc(&r), rep.violations);
            rep.violations > 0
        }
        "full-alphabet" => replay_part(ctx, &full, v),
        _ => replay_part(ctx, &deep, v),
    }
}
