//! C19 — RIS returns the terminal to its power-on state from anywhere.

use super::c11::{a_11, a_11_deep};
use crate::engine::{Out, System};
use crate::obs::{fingerprint, obs, obs_full};
use crate::ops::*;
use crate::probes::battery;
use crate::report::*;
use avt::Vt;
use serde_json::Value;

pub struct Sys<'a> {
    pub conts: &'a (dyn Fn(&Cfg) -> Vec<String> + Sync),
}

impl<'a> System for Sys<'a> {
    type St = Vt;
    fn init(&self, cfg: &Cfg) -> Vt {
        cfg.build()
    }
    fn step(&self, _cfg: &Cfg, vt: &mut Vt, op: &Op, out: Option<&mut Out>) {
        let _ = apply(vt, op);
        if let Some(out) = out {
            out.obs_hash = Some(crate::obs::hash_obs(&obs(vt)));
        }
    }
    fn key(&self, vt: &Vt) -> u128 {
        fingerprint(vt)
    }
    fn on_state(&self, cfg: &Cfg, _h: &[&Op], vt: &mut Vt, rebuild: &dyn Fn() -> Vt, out: &mut Out) {
        let size = vt.size();
        out.count("states_reset");
        let fresh = || build_vt(size.0, size.1, cfg.limit);
        // flush both so that change-report bookkeeping is comparable
        let _ = vt.feed_str("\x1bc");
        let f = fresh();
        out.count("comparisons");
        let (a, b) = (obs_full(vt), obs_full(&f));
        if a != b {
            out.violate(
                "C19",
                "ris-vs-fresh",
                format!("after ESC c: {:?} cursor {:?} ckm {}; fresh: {:?} cursor {:?} ckm {}", a.rows, a.cursor, a.ckm, b.rows, b.cursor, b.ckm),
            );
            return;
        }
        let (da, db) = (vt.dump(), f.dump());
        if da != db {
            out.violate("C19", "ris-vs-fresh-dump", format!("dump after ESC c = {}, fresh = {}", esc(&da), esc(&db)));
            return;
        }
        let conts = (self.conts)(cfg);
        let probes = battery(size.0, size.1);
        for p in probes.iter().chain(conts.iter()) {
            let mut s2 = rebuild();
            let _ = s2.feed_str("\x1bc");
            let _ = s2.feed_str(p);
            let mut f2 = fresh();
            let _ = f2.feed_str(p);
            out.count("comparisons");
            let (a, b) = (obs_full(&s2), obs_full(&f2));
            if a != b {
                out.violate(
                    "C19",
                    "ris-then-input",
                    format!("ESC c then {}: {:?} cursor {:?} ckm {}; fresh then same: {:?} cursor {:?} ckm {}", esc(p), a.rows, a.cursor, a.ckm, b.rows, b.cursor, b.ckm),
                );
                return;
            }
        }
        // RIS delivered char by char from the interrupted parser state
        let mut s3 = rebuild();
        s3.feed('\x1b');
        s3.feed('c');
        let _ = s3.feed_str("");
        if obs_full(&s3) != obs_full(&fresh()) || s3.dump() != db {
            out.violate("C19", "ris-per-char", "ESC c fed with feed() differs from a fresh terminal".into());
        }
    }
}

fn conts_full(cfg: &Cfg) -> Vec<String> {
    a_11(cfg).into_iter().filter(|o| !o.is_resize()).map(|o| o.text).collect()
}
fn conts_deep(cfg: &Cfg) -> Vec<String> {
    a_11_deep(cfg).into_iter().filter(|o| !o.is_resize()).map(|o| o.text).collect()
}

macro_rules! parts {
    ($tier:expr, $sa:expr, $sb:expr) => {{
        let tier: Tier = $tier;
        let full = Part {
            name: "full-alphabet",
            sys: $sa,
            cfgs: match tier {
                Tier::Quick => cfgs(&[(3, 3), (2, 2), (9, 2)], &[None, Some(0)]),
                Tier::Thorough => cfgs(&[(3, 3), (2, 2), (4, 3), (9, 2)], &[None, Some(0), Some(1)]),
            },
            alphabet: &a_11,
            depth: tier.pick(3, 4),
            seconds: tier.pick(30.0, 2400.0),
            validated: true,
            nontrivial: Some("states_reset"),
        };
        let deep = Part {
            name: "origin-margins-save-alt-resize",
            sys: $sb,
            cfgs: match tier {
                Tier::Quick => cfgs(&[(3, 3)], &[None]),
                Tier::Thorough => cfgs(&[(3, 3), (2, 2), (4, 3)], &[None, Some(0)]),
            },
            alphabet: &a_11_deep,
            depth: tier.pick(5, 7),
            seconds: tier.pick(20.0, 2400.0),
            validated: true,
            nontrivial: Some("states_reset"),
        };
        (full, deep)
    }};
}

pub fn run(ctx: &Ctx) -> Report {
    let mut rep = Report::new();
    let sa = Sys { conts: &conts_full };
    let sb = Sys { conts: &conts_deep };
    let (full, deep) = parts!(ctx.tier, &sa, &sb);
    run_part(ctx, &mut rep, &full);
    run_part(ctx, &mut rep, &deep);
    let cmp: u64 = rep.counters.iter().filter(|(k, _)| k.ends_with(".comparisons")).map(|(_, v)| *v).sum();
    rep.evaluations += cmp;
    rep.traces_validated = cmp;
    rep.rule = "BFS over op histories (same alphabet as C11 incl. truncated sequences and resizes); at EVERY distinct state ESC c is applied and the result compared with a freshly built terminal of the current size and limit: all of lines(), cursor, cursor-key mode, dump(), then again after each probe of the battery and after every feed op of the alphabet".into();
    rep.assumptions = vec!["equivalence is observational (public API) plus dump() equality".into()];
    rep
}

pub fn replay(ctx: &Ctx, v: &Value) -> bool {
    let tier = if v["tier"] == "thorough" { Tier::Thorough } else { Tier::Quick };
    let sa = Sys { conts: &conts_full };
    let sb = Sys { conts: &conts_deep };
    let (full, deep) = parts!(tier, &sa, &sb);
    match v["part"].as_str().unwrap_or("") {
        "full-alphabet" => replay_part(ctx, &full, v),
        _ => replay_part(ctx, &deep, v),
    }
}
