//! C06 — scrolling stays inside its region and feeds the scrollback in order.

use crate::lockstep::LockStep;
use crate::ops::Cmd::*;
use crate::ops::*;
use crate::report::*;
use serde_json::Value;

/// distinct content in every row so that shifts are visible
fn seed(cfg: &Cfg) -> Vec<Cmd> {
    let mut v = vec![];
    for r in 0..cfg.rows {
        v.push(Cup(Some(r as u32 + 1), Some(1)));
        let ch = char::from_u32('1' as u32 + r as u32).unwrap();
        v.push(Text(ch.to_string()));
    }
    v.push(Cup(Some(1), Some(1)));
    v
}

fn alpha(cfg: &Cfg) -> Vec<Op> {
    let rows = cfg.rows as u32;
    let mut v: Vec<Op> = vec![c(Lf), calt(Lf, 3), c(Nel), c(Ri)];
    let counts: Vec<P> = vec![None, Some(1), Some(2), Some(rows.saturating_sub(1).max(1)), Some(rows), Some(rows + 1), Some(65535)];
    let mut seen = std::collections::BTreeSet::new();
    for n in counts {
        if !seen.insert(n) {
            continue;
        }
        v.push(c(Su(n)));
        v.push(c(Sd(n)));
        v.push(c(Il(n)));
        v.push(c(Dl(n)));
    }
    for (a, b) in [
        (None, None),
        (Some(1), Some(rows.saturating_sub(1))),
        (Some(2), Some(rows)),
        (Some(2), Some(rows.saturating_sub(1))),
        (Some(0), Some(0)),
        (Some(2), Some(2)),
        (Some(3), Some(2)),
        (Some(1), Some(rows + 1)),
    ] {
        v.push(c(Decstbm(a, b)));
    }
    v.push(Op::text(&"w".repeat(cfg.cols + 1)));
    // park the cursor outside the region with origin mode on (only reachable via restore)
    v.push(c(Seq(vec![DecSet(vec![6]), Cup(Some(99), Some(1)), Decsc, Decstbm(Some(1), Some(rows.saturating_sub(1))), Decrc])));
    v.push(c(Seq(vec![DecSet(vec![6]), Cup(Some(1), Some(1)), Decsc, Decstbm(Some(2), Some(rows)), Decrc])));
    // setup
    for r in 1..=rows {
        v.push(c(Cup(Some(r), Some(1))));
    }
    v.push(c(sgr1(41)));
    v.push(c(sgr1(0)));
    v.push(t("a"));
    // a line feed on the bottom margin scrolls in new-line mode too
    v.push(c(Sm(vec![20])));
    v.push(c(Rm(vec![20])));
    v.push(c(DecSet(vec![1047])));
    v.push(c(DecRst(vec![1047])));
    v.push(Op::resize(cfg.cols, cfg.rows + 1));
    v.push(Op::resize(cfg.cols + 1, cfg.rows));
    v.push(Op::resize(cfg.cols, cfg.rows.max(2) - 1));
    v
}

macro_rules! parts {
    ($tier:expr, $sys:expr) => {{
        let tier: Tier = $tier;
        Part {
            name: "scroll-lockstep",
            sys: $sys,
            cfgs: match tier {
                Tier::Quick => {
                    let mut v = cfgs(&[(2, 2), (2, 3), (1, 3)], &[None]);
                    v.push(Cfg::new(2, 3, Some(0)));
                    v
                }
                Tier::Thorough => {
                    let mut v = cfgs(&[(2, 2), (2, 3), (3, 3), (1, 3), (2, 4), (3, 4)], &[None]);
                    v.push(Cfg::new(2, 3, Some(0)));
                    v
                }
            },
            alphabet: &alpha,
            depth: tier.pick(4, 5),
            seconds: tier.pick(75.0, 2400.0),
            validated: true,
            nontrivial: Some("lockstep_transitions"),
        }
    }};
}

static SYS: LockStep = LockStep { property: "C06", probes: true, seed: Some(&seed), via_feed: false, merged: false };
static SYS_MED: LockStep = LockStep { property: "C06", probes: false, seed: Some(&seed), via_feed: false, merged: false };

fn alpha_medium(cfg: &Cfg) -> Vec<Op> {
    let mut v = alpha(cfg);
    for n in [3u32, 4, 7, 255, 256, 257] {
        for cmd in [Su(Some(n)), Sd(Some(n)), Il(Some(n)), Dl(Some(n))] {
            v.push(c(cmd));
        }
    }
    for (a, b) in [(2u32, 4u32), (3, 4), (3, 5), (1, 3), (4, 5), (2, 256)] {
        v.push(c(Decstbm(Some(a), Some(b))));
    }
    v
}

fn medium_part(tier: Tier) -> Part<'static, LockStep> {
    Part {
        name: "scroll-lockstep-medium-screen",
        sys: &SYS_MED,
        cfgs: match tier {
            Tier::Quick => cfgs(&[(6, 5)], &[None]),
            Tier::Thorough => cfgs(&[(6, 5), (7, 6)], &[None, Some(0)]),
        },
        alphabet: &alpha_medium,
        depth: tier.pick(3, 4),
        seconds: tier.pick(20.0, 1800.0),
        validated: true,
        nontrivial: Some("lockstep_transitions"),
    }
}

static SYS_CORE: LockStep = LockStep { property: "C06", probes: false, seed: None, via_feed: false, merged: false };

/// the core of scrolling over a small alphabet, deeper: regions set and reset, the cursor
/// inside / above / below them, both screens
fn alpha_core(cfg: &Cfg) -> Vec<Op> {
    let rows = cfg.rows as u32;
    vec![
        c(Lf),
        c(Ri),
        c(Su(None)),
        c(Sd(None)),
        c(Il(None)),
        c(Dl(None)),
        c(Decstbm(Some(1), Some(rows - 1))),
        c(Decstbm(Some(2), Some(rows))),
        c(Decstbm(None, None)),
        c(Cup(None, None)),
        c(Cup(Some(99), Some(1))),
        c(Cud(None)),
        t("a"),
        Op::text(&"w".repeat(cfg.cols + 1)),
        c(DecSet(vec![1047])),
        c(DecRst(vec![1047])),
        c(Ris),
    ]
}

fn core_part(tier: Tier) -> Part<'static, LockStep> {
    Part {
        name: "scroll-core-deep",
        sys: &SYS_CORE,
        cfgs: match tier {
            Tier::Quick => cfgs(&[(2, 3)], &[None]),
            Tier::Thorough => cfgs(&[(2, 3), (2, 4), (2, 3)], &[None, Some(0)]),
        },
        alphabet: &alpha_core,
        depth: tier.pick(7, 9),
        seconds: tier.pick(20.0, 1800.0),
        validated: true,
        nontrivial: Some("lockstep_transitions"),
    }
}

static SYS_CORE_MERGED: LockStep = LockStep { property: "C06", probes: false, seed: None, via_feed: false, merged: true };

/// the core alphabet again, less deep, with twin terminals that get the same history with
/// fewer call boundaries (two ops per call, even and odd phase) - see DESIGN 3.2
fn core_merged_part(tier: Tier) -> Part<'static, LockStep> {
    let mut p = core_part(tier);
    p.name = "scroll-core-with-merged-calls";
    p.sys = &SYS_CORE_MERGED;
    p.cfgs.retain(|c| c.limit.is_none());
    p.depth = tier.pick(6, 8);
    p.seconds = tier.pick(15.0, 900.0);
    p
}

static SYS_SWEEP: LockStep = LockStep { property: "C06", probes: false, seed: Some(&super::sweep::fill), via_feed: false, merged: false };

fn alpha_sweep(cfg: &Cfg) -> Vec<Op> {
    let mut v = super::sweep::placements(cfg, false);
    v.extend(super::sweep::scroll_funcs(cfg));
    v
}

fn alpha_wide(cfg: &Cfg) -> Vec<Op> {
    super::sweep::layered(super::sweep::wide_placements(cfg), super::sweep::wide_scroll_funcs(cfg))
}

/// "the alternate screen keeps none" whichever entry point delivers the input: the same
/// scrolling alphabet through feed() per character and through feed_str, mixed; whenever
/// the alternate screen is showing, lines() is exactly the visible rows - after EVERY op.
pub struct FeedSys;
impl crate::engine::System for FeedSys {
    type St = (avt::Vt, bool);
    fn init(&self, cfg: &Cfg) -> Self::St {
        (cfg.build(), false)
    }
    fn step(&self, _cfg: &Cfg, st: &mut Self::St, op: &Op, out: Option<&mut crate::engine::Out>) {
        let _ = apply(&mut st.0, op);
        st.1 = st.0.verif_state().alternate_active;
        if let Some(out) = out {
            out.count("ops_checked");
            let (rows, n) = (st.0.size().1, st.0.lines().len());
            if st.1 {
                out.count("ops_on_the_alternate_screen");
                if n != rows {
                    out.violate("C06", "alternate-screen-keeps-none", format!("after {}: lines() has {} rows while the alternate screen ({} rows) is showing", op.describe(), n, rows));
                }
            }
            out.obs_hash = Some(n as u64);
        }
    }
    fn key(&self, st: &Self::St) -> u128 {
        crate::obs::fingerprint(&st.0)
    }
    fn has_state_hook(&self) -> bool {
        false
    }
}

fn alpha_feed(_cfg: &Cfg) -> Vec<Op> {
    let base = vec![
        c(DecSet(vec![1049])),
        c(DecRst(vec![1049])),
        c(DecSet(vec![47])),
        c(Cup(None, None)),
        c(Cup(Some(99), Some(1))),
        c(Dl(None)),
        c(Dl(Some(2))),
        c(Il(None)),
        c(Su(None)),
        c(Lf),
        c(Ri),
        c(Decstbm(Some(2), Some(3))),
        c(Decstbm(Some(1), Some(2))),
        c(Decstbm(None, None)),
        t("abc"),
    ];
    let mut v: Vec<Op> = base.iter().map(|o| o.clone().kind(Kind::FeedChars)).collect();
    v.extend(base);
    v
}

fn feed_part(tier: Tier) -> Part<'static, FeedSys> {
    Part {
        name: "alternate-screen-through-feed",
        sys: &FeedSys,
        cfgs: match tier {
            Tier::Quick => cfgs(&[(2, 3)], &[None, Some(1)]),
            Tier::Thorough => cfgs(&[(2, 3), (2, 4), (1, 2)], &[None, Some(0), Some(1)]),
        },
        alphabet: &alpha_feed,
        depth: tier.pick(4, 5),
        seconds: tier.pick(15.0, 1800.0),
        validated: false,
        nontrivial: Some("ops_on_the_alternate_screen"),
    }
}

/// Scrolling next to a scrollback that is AT its limit: limits 10, 11 and 20 with the
/// scrollback filled to every level around them first (a seed prefix of 8..25 lines), then the
/// scrolling alphabet. What the terminal retains is C13's and C14's business; here the view
/// is compared cell by cell and the retained rows must be the most recent ones, unchanged.
static SYS_L10A: LockStep = LockStep { property: "C06", probes: false, seed: Some(&seed_lines_10), via_feed: false, merged: false };
static SYS_L10B: LockStep = LockStep { property: "C06", probes: false, seed: Some(&seed_lines_12), via_feed: false, merged: false };
static SYS_L20: LockStep = LockStep { property: "C06", probes: false, seed: Some(&seed_lines_23), via_feed: false, merged: false };
fn seed_n(n: usize) -> Vec<Cmd> {
    let mut v = vec![Cup(Some(99), Some(1))];
    for i in 0..n {
        v.push(Text(format!("{}", i % 10)));
        v.push(Nel);
    }
    v
}
fn seed_lines_10(_c: &Cfg) -> Vec<Cmd> {
    seed_n(11)
}
fn seed_lines_12(_c: &Cfg) -> Vec<Cmd> {
    seed_n(13)
}
fn seed_lines_23(_c: &Cfg) -> Vec<Cmd> {
    seed_n(22)
}
fn limited_part(name: &'static str, sys: &'static LockStep, limit: usize, tier: Tier) -> Part<'static, LockStep> {
    Part {
        name,
        sys,
        cfgs: cfgs(&[(2, 3)], &[Some(limit)]),
        alphabet: &alpha_core,
        depth: tier.pick(5, 7),
        seconds: tier.pick(15.0, 900.0),
        validated: true,
        nontrivial: Some("lockstep_transitions"),
    }
}

/// Screens of more than 65536 rows: SU / SD / IL / DL with counts around 64, 65536 and the
/// distance to the end, from the top rows - marker rows must be where the shift puts them.
fn tall_screen_scrolls(ctx: &Ctx, rep: &mut Report) {
    use rayon::prelude::*;
    let heights: Vec<usize> = ctx.tier.pick(vec![65_600, 131_100], vec![65_536, 65_537, 65_600, 70_000, 131_100, 200_000]);
    let counts = [1usize, 5, 63, 64, 65, 100, 1000, 65_535];
    let curs = [0usize, 1, 64, 65, 100];
    let mut cases: Vec<(usize, usize, usize, usize)> = vec![];
    for &h in &heights {
        // (f / 4 = the way the whole screen was made the scroll region beforehand: not at all,
        // `CSI r`, `CSI 1 r`, `CSI ; 0 r` - the bottom defaults to a row beyond 65535)
        for f in 0..16 {
            for &n in &counts {
                for &cr in &curs {
                    cases.push((h, f, n, cr));
                }
            }
        }
    }
    let bad: Vec<String> = cases
        .par_iter()
        .filter_map(|&(h, f, n, cr)| {
            let r = crate::engine::guarded(|| {
                let mut vt = build_vt(2, h, Some(0));
                // marker rows: a distinct two-character label on rows around every interesting index
                let mut marks: Vec<usize> = vec![];
                for base in [0usize, 64, 100, 1000, 65_535, h - 1] {
                    for d in 0..3 {
                        let r = base + d;
                        if r < h && base + d >= base && !marks.contains(&r) {
                            marks.push(r);
                        }
                        if base >= d + 1 && base - d - 1 < h && !marks.contains(&(base - d - 1)) {
                            marks.push(base - d - 1);
                        }
                    }
                }
                let label = |r: usize| -> String { format!("{}{}", char::from_u32('A' as u32 + (r % 26) as u32).unwrap(), char::from_u32('a' as u32 + ((r / 26) % 26) as u32).unwrap()) };
                let goto = |r: usize| -> String {
                    let r1 = r.min(65_000);
                    let mut s = format!("\x1b[{};1H", r1 + 1);
                    let mut d = r - r1;
                    while d > 0 {
                        let k = d.min(60_000);
                        s.push_str(&format!("\x1b[{}B", k));
                        d -= k;
                    }
                    s
                };
                let mut setup = String::new();
                for &m in &marks {
                    setup.push_str(&goto(m));
                    setup.push_str(&label(m));
                }
                setup.push_str(["", "\x1b[r", "\x1b[1r", "\x1b[;0r"][f / 4]);
                setup.push_str(&goto(cr));
                let _ = vt.feed_str(&setup);
                let fin = ['S', 'T', 'L', 'M'][f % 4];
                let _ = vt.feed_str(&format!("\x1b[{}{}", n, fin));
                // where each row of the result comes from (None = vacated blank)
                let src = |r: usize| -> Option<usize> {
                    match fin {
                        'S' => if r + n < h { Some(r + n) } else { None },
                        'T' => if r >= n { Some(r - n) } else { None },
                        'L' => if r < cr { Some(r) } else if r >= cr + n { Some(r - n) } else { None },
                        _ => if r < cr { Some(r) } else if r + n < h { Some(r + n) } else { None },
                    }
                };
                let view = vt.view();
                let mut probe: Vec<usize> = marks.clone();
                for &m in &marks {
                    for d in [n, 0] {
                        if m + d < h {
                            probe.push(m + d);
                        }
                        if m >= d {
                            probe.push(m - d);
                        }
                    }
                }
                probe.sort();
                probe.dedup();
                for r in probe {
                    let want = match src(r) {
                        Some(s) if marks.contains(&s) => label(s),
                        _ => "  ".to_string(),
                    };
                    let got: String = view[r].cells().iter().map(|c| c.char()).collect();
                    if got != want {
                        return Some(format!("row {} shows {:?}, expected {:?}", r, got, want));
                    }
                }
                None
            });
            let name = format!("{}{}", ["", "after CSI r: ", "after CSI 1 r: ", "after CSI ;0 r: "][f / 4], ["SU", "SD", "IL", "DL"][f % 4]);
            match r {
                Ok(None) => None,
                Ok(Some(d)) => Some(format!("2x{}: {} {} with the cursor on row {}: {}", h, name, n, cr, d)),
                Err(p) => Some(format!("2x{}: {} {} from row {}: panic: {}", h, name, n, cr, p)),
            }
        })
        .collect();
    let n = cases.len() as u64;
    rep.evaluations += n;
    rep.traces_validated += n;
    rep.transitions += n;
    rep.parts.push(serde_json::json!({"part":"screens-taller-than-65536-rows","heights":heights,"cases":n,"violating":bad.len()}));
    println!("part screens-taller-than-65536-rows: {} (height, function, count, cursor row) cases, {} violating", n, bad.len());
    if let Some(d) = bad.first() {
        emit_violation(ctx, rep, "C06", serde_json::json!({"part":"screens-taller-than-65536-rows","oracle":"reference-terminal","observed":d}));
        rep.violations += bad.len() as u64 - 1;
    }
}

pub fn run(ctx: &Ctx) -> Report {
    let mut rep = Report::new();
    let p = parts!(ctx.tier, &SYS);
    run_part(ctx, &mut rep, &p);
    run_part(ctx, &mut rep, &medium_part(ctx.tier));
    run_part(ctx, &mut rep, &core_part(ctx.tier));
    run_part(ctx, &mut rep, &core_merged_part(ctx.tier));
    run_part(ctx, &mut rep, &feed_part(ctx.tier));
    run_part(ctx, &mut rep, &limited_part("scroll-core-at-the-limit-10a", &SYS_L10A, 10, ctx.tier));
    run_part(ctx, &mut rep, &limited_part("scroll-core-at-the-limit-10b", &SYS_L10B, 10, ctx.tier));
    run_part(ctx, &mut rep, &limited_part("scroll-core-at-the-limit-20", &SYS_L20, 20, ctx.tier));
    tall_screen_scrolls(ctx, &mut rep);
    run_part(ctx, &mut rep, &super::sweep::sweep_part("scroll-large-screen-parameter-sweep", &SYS_SWEEP, &alpha_sweep, ctx.tier));
    // (a tall narrow screen as well: regions of more than 24 rows with rows above and below)
    let mut wcfgs = super::sweep::wide_cfgs(ctx.tier);
    wcfgs.push(Cfg::new(20, 40, None));
    run_part(ctx, &mut rep, &super::sweep::wide_part_on("scroll-realistic-screen-parameter-sweep", &SYS_SWEEP, &alpha_wide, wcfgs, ctx.tier));
    rep.rule = "lock-step BFS of (real Vt, reference terminal) from a screen whose rows carry distinct content: LF/IND/NEL/RI, SU/SD/IL/DL x counts {default,1,2,h-1,h,h+1,65535}, valid and invalid DECSTBM pairs, wrap-causing text, with cursor placement on every row, coloured pen, alternate screen, resizes; after every transition all rows of lines() (screen and scrollback, cells) and the margins are compared".into();
    rep.assumptions = vec!["scrollback compared with unlimited scrollback (and limit 0 for the alternate-screen clause); wrap marks after scrolls are adopted (not specified)".into()];
    rep
}

pub fn replay(ctx: &Ctx, v: &Value) -> bool {
    let tier = if v["tier"] == "thorough" { Tier::Thorough } else { Tier::Quick };
    if v["part"] == "scroll-core-at-the-limit-10a" {
        return replay_part(ctx, &limited_part("scroll-core-at-the-limit-10a", &SYS_L10A, 10, tier), v);
    }
    if v["part"] == "scroll-core-at-the-limit-10b" {
        return replay_part(ctx, &limited_part("scroll-core-at-the-limit-10b", &SYS_L10B, 10, tier), v);
    }
    if v["part"] == "scroll-core-at-the-limit-20" {
        return replay_part(ctx, &limited_part("scroll-core-at-the-limit-20", &SYS_L20, 20, tier), v);
    }
    if v["part"] == "screens-taller-than-65536-rows" {
        let mut rep = Report::new();
        let c2 = Ctx { id: ctx.id.clone(), tier, seed: 0, start: ctx.start, known: ctx.known.clone(), replay_dir: ctx.replay_dir.clone() };
        tall_screen_scrolls(&c2, &mut rep);
        return rep.violations > 0;
    }
    if v["part"] == "alternate-screen-through-feed" {
        return replay_part(ctx, &feed_part(tier), v);
    }
    if v["part"] == "scroll-core-deep" {
        return replay_part(ctx, &core_part(tier), v);
    }
    if v["part"] == "scroll-core-with-merged-calls" {
        return replay_part(ctx, &core_merged_part(tier), v);
    }
    if v["part"] == "scroll-lockstep-medium-screen" {
        return replay_part(ctx, &medium_part(tier), v);
    }
    if v["part"] == "scroll-realistic-screen-parameter-sweep" {
        let mut wcfgs = super::sweep::wide_cfgs(tier);
        wcfgs.push(Cfg::new(20, 40, None));
        return replay_part(ctx, &super::sweep::wide_part_on("scroll-realistic-screen-parameter-sweep", &SYS_SWEEP, &alpha_wide, wcfgs, tier), v);
    }
    if v["part"] == "scroll-large-screen-parameter-sweep" {
        return replay_part(ctx, &super::sweep::sweep_part("scroll-large-screen-parameter-sweep", &SYS_SWEEP, &alpha_sweep, tier), v);
    }
    let p = parts!(tier, &SYS);
    replay_part(ctx, &p, v)
}
