//! C02 — geometry invariants after every public call.

use super::common::*;
use crate::alphabets::*;
use crate::engine::{Out, System};
use crate::obs::fingerprint;
use crate::ops::*;
use crate::report::*;
use avt::Vt;
use serde_json::Value;

pub struct Sys;

pub struct St {
    pub vt: Vt,
    pub want: (usize, usize),
}

impl System for Sys {
    type St = St;
    fn init(&self, cfg: &Cfg) -> St {
        St {
            vt: cfg.build(),
            want: (cfg.cols, cfg.rows),
        }
    }
    fn step(&self, _cfg: &Cfg, st: &mut St, op: &Op, out: Option<&mut Out>) {
        let pre_c = st.vt.cursor();
        let pre_cols = st.vt.size().0;
        if let Cmd::Resize(c, r) = op.cmd {
            st.want = (c, r);
        }
        let ap = apply(&mut st.vt, op);
        if let Some(out) = out {
            out.count("calls_checked");
            if let Some(why) = geometry_broken(&st.vt, st.want) {
                out.violate("C02", "geometry", why);
                return;
            }
            let (cols, rows) = st.vt.size();
            let c = st.vt.cursor();
            if c.col == cols {
                out.count("wrap_pending_states");
                let carried = pre_c.col == pre_cols && pre_cols == cols;
                if !(may_print(&op.cmd) || carried) {
                    out.violate(
                        "C02",
                        "wrap-pending-origin",
                        format!(
                            "col == cols ({}) after a call that prints nothing; before: col {} cols {}",
                            cols, pre_c.col, pre_cols
                        ),
                    );
                }
            }
            let pw = st.vt.verif_state().pending_wrap;
            if pw != (c.col == cols) {
                out.violate(
                    "C02",
                    "wrap-pending-consistency",
                    format!("internal wrap-pending flag is {} while the cursor column is {} of {}", pw, c.col, cols),
                );
            }
            if ap.reported {
                if let Some(why) = changed_lines_broken(&ap.changed, rows) {
                    out.violate("C02", "changed-lines", why);
                }
            }
            out.obs_hash = Some(crate::obs::hash_obs(&crate::obs::obs(&st.vt)));
        }
    }
    fn key(&self, st: &St) -> u128 {
        fingerprint(&st.vt)
    }
}

fn alpha_main(cfg: &Cfg) -> Vec<Op> {
    let mut v = a_all(cfg, S4, true);
    v.push(t("bcd").kind(Kind::FeedChars));
    v.push(c(lfs(3)).kind(Kind::FeedChars));
    v.push(c(lfs(3)).kind(Kind::FeedDrop));
    v.push(Op::resize(1, 1).kind(Kind::ResizeDrop));
    v.push(Op::resize(4, 3).kind(Kind::ResizeDrop));
    v
}

fn alpha_main_quick(cfg: &Cfg) -> Vec<Op> {
    let mut v = a_all(cfg, &[(1, 1), (2, 2), (3, 2), (1, 4), (4, 3)], true);
    v.push(t("bcd").kind(Kind::FeedChars));
    v.push(c(lfs(3)).kind(Kind::FeedDrop));
    v.push(Op::resize(2, 1).kind(Kind::ResizeDrop));
    v
}

fn alpha_deep(cfg: &Cfg) -> Vec<Op> {
    a_altresize(cfg, &[(1, 1), (2, 2), (3, 2), (2, 3), (4, 3)])
}

const L_ALL: &[Option<usize>] = &[None, Some(0), Some(1), Some(2), Some(10), Some(11)];

macro_rules! parts {
    ($tier:expr) => {{
        let tier: Tier = $tier;
        let main = Part {
            name: "all-functions",
            sys: &Sys,
            cfgs: match tier {
                Tier::Quick => cfgs(S4, &[None, Some(0), Some(1)]),
                Tier::Thorough => cfgs(S4, L_ALL),
            },
            alphabet: match tier {
                Tier::Quick => &alpha_main_quick,
                Tier::Thorough => &alpha_main,
            },
            depth: tier.pick(3, 4),
            seconds: tier.pick(45.0, 1500.0),
            validated: false,
            nontrivial: None,
        };
        let deep = Part {
            name: "alt-resize-deep",
            sys: &Sys,
            cfgs: match tier {
                Tier::Quick => cfgs(&[(3, 2), (2, 2)], &[None, Some(0)]),
                Tier::Thorough => cfgs(&[(3, 2), (2, 2), (1, 2)], &[None, Some(0), Some(2)]),
            },
            alphabet: &alpha_deep,
            depth: tier.pick(6, 7),
            seconds: tier.pick(60.0, 2400.0),
            validated: false,
            nontrivial: None,
        };
        (main, deep)
    }};
}

pub fn run(ctx: &Ctx) -> Report {
    let mut rep = Report::new();
    let (main, deep) = parts!(ctx.tier);
    run_part(ctx, &mut rep, &main);
    run_part(ctx, &mut rep, &deep);
    rep.rule = "BFS over op histories from power-on, dedup on the Debug fingerprint of the whole Vt; every transition is one public call (feed_str with drained/dropped Changes, feed per char, resize) after which all C02 invariants are evaluated; distinct = distinct implementation states".into();
    rep.assumptions = vec![
        "screens limited to the configured tiny sizes and resize targets".into(),
        "wrap-pending origin is judged with an over-approximation of 'the call printed something' (any printable char in the input)".into(),
    ];
    rep
}

pub fn replay(ctx: &Ctx, v: &Value) -> bool {
    let tier = if v["tier"] == "thorough" { Tier::Thorough } else { Tier::Quick };
    let (main, deep) = parts!(tier);
    match v["part"].as_str().unwrap_or("") {
        "all-functions" => replay_part(ctx, &main, v),
        "alt-resize-deep" => replay_part(ctx, &deep, v),
        p => {
            println!("unknown part {}", p);
            false
        }
    }
}
