//! C02 — geometry invariants after every public call.

use super::common::*;
use crate::alphabets::*;
use crate::engine::{Out, System};
use crate::obs::fingerprint;
use crate::ops::*;
use crate::report::*;
use avt::Vt;
use serde_json::Value;

pub struct Sys;

pub struct St {
    pub vt: Vt,
    pub want: (usize, usize),
}

impl System for Sys {
    type St = St;
    fn init(&self, cfg: &Cfg) -> St {
        St {
            vt: cfg.build(),
            want: (cfg.cols, cfg.rows),
        }
    }
    fn step(&self, _cfg: &Cfg, st: &mut St, op: &Op, out: Option<&mut Out>) {
        let pre_c = st.vt.cursor();
        let pre_cols = st.vt.size().0;
        if let Cmd::Resize(c, r) = op.cmd {
            st.want = (c, r);
        }
        let ap = apply(&mut st.vt, op);
        if let Some(out) = out {
            out.count("calls_checked");
            if let Some(why) = geometry_broken(&st.vt, st.want) {
                out.violate("C02", "geometry", why);
                return;
            }
            let (cols, rows) = st.vt.size();
            let c = st.vt.cursor();
            if c.col == cols {
                out.count("wrap_pending_states");
                let carried = pre_c.col == pre_cols && pre_cols == cols;
                if !(may_print(&op.cmd) || carried) {
                    out.violate(
                        "C02",
                        "wrap-pending-origin",
                        format!(
                            "col == cols ({}) after a call that prints nothing; before: col {} cols {}",
                            cols, pre_c.col, pre_cols
                        ),
                    );
                }
            }
            let pw = st.vt.verif_state().pending_wrap;
            if pw != (c.col == cols) {
                out.violate(
                    "C02",
                    "wrap-pending-consistency",
                    format!("internal wrap-pending flag is {} while the cursor column is {} of {}", pw, c.col, cols),
                );
            }
            if ap.reported {
                if let Some(why) = changed_lines_broken(&ap.changed, rows) {
                    out.violate("C02", "changed-lines", why);
                }
            }
            out.obs_hash = Some(crate::obs::hash_obs(&crate::obs::obs(&st.vt)));
        }
    }
    fn key(&self, st: &St) -> u128 {
        fingerprint(&st.vt)
    }
}

fn alpha_main(cfg: &Cfg) -> Vec<Op> {
    let mut v = a_all(cfg, S4, true);
    v.push(t("bcd").kind(Kind::FeedChars));
    v.push(c(lfs(3)).kind(Kind::FeedChars));
    v.push(c(lfs(3)).kind(Kind::FeedDrop));
    v.push(Op::resize(1, 1).kind(Kind::ResizeDrop));
    v.push(Op::resize(4, 3).kind(Kind::ResizeDrop));
    v.extend(window_ops());
    v
}

/// in-band window manipulation: the geometry is what the API was told, not what the
/// application asks for (the library has no public way to enable XTWINOPS)
fn window_ops() -> Vec<Op> {
    ["\x1b[8;3;5t", "\x1b[8;1;1t", "\x1b[8;;7t", "\x1b[8;9t", "\x1b[4;20;30t"].iter().map(|s| Op::raw(s)).collect()
}

fn alpha_main_quick(cfg: &Cfg) -> Vec<Op> {
    let mut v = a_all(cfg, &[(1, 1), (2, 2), (3, 2), (1, 4), (4, 3)], true);
    v.push(t("bcd").kind(Kind::FeedChars));
    v.push(c(lfs(3)).kind(Kind::FeedDrop));
    v.push(Op::resize(2, 1).kind(Kind::ResizeDrop));
    v.extend(window_ops().into_iter().take(3));
    v
}

fn alpha_deep(cfg: &Cfg) -> Vec<Op> {
    a_altresize(cfg, &[(1, 1), (2, 2), (3, 2), (2, 3), (4, 3)])
}

const L_ALL: &[Option<usize>] = &[None, Some(0), Some(1), Some(2), Some(10), Some(11)];

macro_rules! parts {
    ($tier:expr) => {{
        let tier: Tier = $tier;
        let main = Part {
            name: "all-functions",
            sys: &Sys,
            cfgs: match tier {
                Tier::Quick => cfgs(S4, &[None, Some(0), Some(1)]),
                Tier::Thorough => cfgs(S4, L_ALL),
            },
            alphabet: match tier {
                Tier::Quick => &alpha_main_quick,
                Tier::Thorough => &alpha_main,
            },
            depth: tier.pick(3, 4),
            seconds: tier.pick(45.0, 1500.0),
            validated: false,
            nontrivial: None,
        };
        let deep = Part {
            name: "alt-resize-deep",
            sys: &Sys,
            cfgs: match tier {
                Tier::Quick => cfgs(&[(3, 2), (2, 2)], &[None, Some(0)]),
                Tier::Thorough => cfgs(&[(3, 2), (2, 2), (1, 2)], &[None, Some(0), Some(2)]),
            },
            alphabet: &alpha_deep,
            depth: tier.pick(6, 7),
            seconds: tier.pick(60.0, 2400.0),
            validated: false,
            nontrivial: None,
        };
        (main, deep)
    }};
}

fn core_part(tier: Tier) -> Part<'static, Sys> {
    Part {
        name: "save-alt-resize-core-deep",
        sys: &Sys,
        cfgs: match tier {
            Tier::Quick => cfgs(&[(3, 3)], &[None]),
            Tier::Thorough => cfgs(&[(3, 3), (2, 2), (4, 2)], &[None, Some(0)]),
        },
        alphabet: &crate::alphabets::a_core_deep,
        depth: tier.pick(10, 13),
        seconds: tier.pick(20.0, 1800.0),
        validated: false,
        nontrivial: None,
    }
}

/// text and REP runs of every length (well beyond 64) from every placement - region x origin
/// mode x cursor above / inside / below it, wrap-pending - with insert mode, auto-wrap off and
/// the other charset: the layered alphabet of C04's realistic-screen sweep, all invariants
fn alpha_runs(cfg: &Cfg) -> Vec<Op> {
    super::sweep::layered(super::sweep::wide_placements(cfg), super::sweep::wide_print_funcs(cfg))
}

fn runs_part(tier: Tier) -> Part<'static, Sys> {
    Part {
        name: "text-and-rep-runs-from-every-placement",
        sys: &Sys,
        cfgs: match tier {
            Tier::Quick => cfgs(&[(66, 5)], &[None]),
            Tier::Thorough => cfgs(&[(66, 5), (130, 4), (20, 6)], &[None, Some(0)]),
        },
        alphabet: &alpha_runs,
        depth: 2,
        seconds: tier.pick(20.0, 1800.0),
        validated: false,
        nontrivial: None,
    }
}

fn tabs_part(tier: Tier) -> Part<'static, Sys> {
    Part {
        name: "tab-moves-across-width-changes",
        sys: &Sys,
        cfgs: cfgs(&[(7, 1), (20, 1)], &[Some(0)]),
        alphabet: &crate::alphabets::a_tab_widths,
        depth: tier.pick(5, 6),
        seconds: tier.pick(15.0, 1800.0),
        validated: false,
        nontrivial: None,
    }
}

/// "resize to any size": geometries at and beyond the 16-bit boundary, by resize() and by
/// the builder, from a screen with content; all invariants after every call.
fn extreme_sizes(ctx: &Ctx, rep: &mut Report) {
    use super::common::geometry_broken;
    let sizes: &[(usize, usize)] = match ctx.tier {
        Tier::Quick => &[(65535, 1), (65536, 1), (70000, 2), (1, 65535), (1, 65536), (2, 70000), (300, 300)],
        Tier::Thorough => &[(65535, 1), (65536, 1), (65537, 2), (70000, 2), (131072, 1), (1000000, 1), (1, 65535), (1, 65536), (2, 65537), (2, 70000), (1, 131072), (1, 1000000), (300, 300), (1000, 1000)],
    };
    let mut n = 0u64;
    let mut bad: Option<(String, String)> = None;
    'outer: for &(c, r) in sizes {
        for via_builder in [false, true] {
            for limit in [None, Some(0)] {
                let what = format!("{} {}x{} (limit {:?})", if via_builder { "builder" } else { "resize to" }, c, r, limit);
                let res = crate::engine::guarded(|| {
                    let mut vt = if via_builder { build_vt(c, r, limit) } else { build_vt(3, 2, limit) };
                    let _ = vt.feed_str("ab\r\ncdefg");
                    if !via_builder {
                        let _ = vt.resize(c, r);
                    }
                    if let Some(why) = geometry_broken(&vt, (c, r)) {
                        return Some(why);
                    }
                    let _ = vt.feed_str("\x1b[99999;99999Hxy\x1b[H\x1bM");
                    if let Some(why) = geometry_broken(&vt, (c, r)) {
                        return Some(format!("after CUP to the far corner and a print: {}", why));
                    }
                    let _ = vt.resize(2, 2);
                    geometry_broken(&vt, (2, 2)).map(|w| format!("after shrinking back to 2x2: {}", w))
                });
                n += 1;
                match res {
                    Ok(None) => {}
                    Ok(Some(why)) => {
                        bad = Some((what, why));
                        break 'outer;
                    }
                    Err(p) => {
                        bad = Some((what, format!("panic: {}", p)));
                        break 'outer;
                    }
                }
            }
        }
    }
    if let Some((what, why)) = bad {
        emit_violation(ctx, rep, "C02", serde_json::json!({"part":"extreme-sizes","case":what,"oracle":"geometry","observed":why}));
    }
    rep.evaluations += n * 3;
    rep.parts.push(serde_json::json!({"part":"extreme-sizes","sizes":sizes.len(),"cases":n}));
    println!("part extreme-sizes: {} cases", n);
}

fn changes_ok(lines: &[usize], rows: usize) -> Option<String> {
    if lines.windows(2).any(|w| w[0] >= w[1]) {
        return Some(format!("Changes.lines is not strictly increasing: {:?}", lines));
    }
    if let Some(&m) = lines.last() {
        if m >= rows {
            return Some(format!("Changes.lines holds index {} on a screen of {} rows", m, rows));
        }
    }
    None
}

/// Every height to every height, 1..=200 (thorough 300): the resize as the FIRST call on a
/// fresh terminal (every row still marked changed), after every row was touched through
/// feed() (which reports nothing and clears nothing), and after an ordinary call. All
/// invariants and the shape of Changes.lines after the resize and after one more call.
fn every_height_pair(ctx: &Ctx, rep: &mut Report) {
    use super::common::geometry_broken;
    use rayon::prelude::*;
    let n = ctx.tier.pick(200usize, 300usize);
    let pairs: Vec<(usize, usize)> = (1..=n).flat_map(|a| (1..=n).map(move |b| (a, b))).collect();
    let bad: Vec<String> = pairs
        .par_iter()
        .filter_map(|&(a, b)| {
            let r = crate::engine::guarded(|| {
                for variant in 0..3 {
                    let mut vt = build_vt(2, a, Some(0));
                    match variant {
                        1 => {
                            for r in 0..a {
                                for ch in format!("\x1b[{};1Hx", r + 1).chars() {
                                    vt.feed(ch);
                                }
                            }
                        }
                        2 => {
                            let _ = vt.feed_str("q");
                        }
                        _ => {}
                    }
                    let ch = vt.resize(2, b);
                    let lines = ch.lines.clone();
                    drop(ch);
                    if let Some(w) = changes_ok(&lines, b).or_else(|| geometry_broken(&vt, (2, b))) {
                        return Some(format!("variant {}: after the resize: {}", variant, w));
                    }
                    let ch = vt.feed_str("\x1b[Hz");
                    let lines = ch.lines.clone();
                    drop(ch);
                    if let Some(w) = changes_ok(&lines, b).or_else(|| geometry_broken(&vt, (2, b))) {
                        return Some(format!("variant {}: after the next call: {}", variant, w));
                    }
                }
                None
            });
            match r {
                Ok(None) => None,
                Ok(Some(d)) => Some(format!("2x{} resized to 2x{}: {}", a, b, d)),
                Err(p) => Some(format!("2x{} resized to 2x{}: panic: {}", a, b, p)),
            }
        })
        .collect();
    let runs = pairs.len() as u64 * 3;
    rep.evaluations += runs * 2;
    rep.transitions += runs * 2;
    rep.parts.push(serde_json::json!({"part":"every-height-pair","heights_up_to":n,"pairs":pairs.len(),"runs":runs,"violating":bad.len()}));
    println!("part every-height-pair: {} pairs x 3 variants, {} violating", pairs.len(), bad.len());
    if let Some(d) = bad.first() {
        emit_violation(ctx, rep, "C02", serde_json::json!({"part":"every-height-pair","oracle":"geometry","observed":d}));
        rep.violations += bad.len() as u64 - 1;
    }
}

/// Growing (and reshaping) a screen whose scrollback is at every fill level around the
/// limit - below it, in the slack between the limit and limit + limit/10, and (through
/// feed(), which never trims, or a scroll followed by a screen switch in the same call)
/// beyond it - by every amount around the limit.
fn resize_at_every_fill_level(ctx: &Ctx, rep: &mut Report) {
    use super::common::geometry_broken;
    use rayon::prelude::*;
    let limits: Vec<usize> = ctx.tier.pick(vec![0, 1, 10, 11, 20, 35], vec![0, 1, 2, 9, 10, 11, 19, 20, 21, 25, 35, 100]);
    let mut cases: Vec<(usize, usize, usize)> = vec![];
    for &l in &limits {
        for fill in 0..=(l + l / 10 + 4) {
            for how in 0..4 {
                cases.push((l, fill, how));
            }
        }
    }
    let bad: Vec<String> = cases
        .par_iter()
        .filter_map(|&(l, fill, how)| {
            let r = crate::engine::guarded(|| {
                let (cols, rows) = (4usize, 3usize);
                let hard = l + l / 10;
                let mut targets: Vec<(usize, usize)> = vec![];
                for g in [1usize, 2, l.saturating_sub(1), l, l + 1, hard, hard + 1, hard + 5, 3 * hard + 7] {
                    targets.push((cols, rows + g));
                    targets.push((cols + 3, rows + g));
                    targets.push((2, rows + g));
                }
                targets.push((cols, 1));
                targets.push((9, rows));
                targets.push((1, rows));
                targets.sort();
                targets.dedup();
                for (tc, tr) in targets {
                    let mut vt = build_vt(cols, rows, Some(l));
                    let _ = vt.feed_str("\x1b[3;1H");
                    match how {
                        0 => {
                            for i in 0..fill {
                                let _ = vt.feed_str(&format!("{}\r\n", i % 10));
                            }
                        }
                        1 => {
                            for i in 0..fill {
                                for ch in format!("{}\r\n", i % 10).chars() {
                                    vt.feed(ch);
                                }
                            }
                        }
                        2 => {
                            let body: String = (0..fill).map(|i| format!("{}\r\n", i % 10)).collect();
                            let _ = vt.feed_str(&format!("{}\x1b[?1049h", body));
                        }
                        _ => {
                            let body: String = (0..fill).map(|i| format!("{}abcde\r\n", i % 10)).collect();
                            let _ = vt.feed_str(&body);
                        }
                    }
                    let ch = vt.resize(tc, tr);
                    let lines = ch.lines.clone();
                    drop(ch);
                    if let Some(w) = changes_ok(&lines, tr).or_else(|| geometry_broken(&vt, (tc, tr))) {
                        return Some(format!("resized to {}x{}: {}", tc, tr, w));
                    }
                    let ch = vt.feed_str("\x1b[?1049lz\r\n");
                    let lines = ch.lines.clone();
                    drop(ch);
                    if let Some(w) = changes_ok(&lines, tr).or_else(|| geometry_broken(&vt, (tc, tr))) {
                        return Some(format!("resized to {}x{}, then one more line: {}", tc, tr, w));
                    }
                }
                None
            });
            let hows = ["one call per line", "feed() per character", "all lines and ?1049h in one call", "wrapping lines in one call"];
            match r {
                Ok(None) => None,
                Ok(Some(d)) => Some(format!("4x3, limit {}, {} lines scrolled ({}): {}", l, fill, hows[how], d)),
                Err(p) => Some(format!("4x3, limit {}, {} lines scrolled ({}): panic: {}", l, fill, hows[how], p)),
            }
        })
        .collect();
    let n = cases.len() as u64;
    rep.evaluations += n * 30;
    rep.transitions += n * 30;
    rep.parts.push(serde_json::json!({"part":"resize-at-every-fill-level","limits":limits,"cases":n,"violating":bad.len()}));
    println!("part resize-at-every-fill-level: {} (limit, fill, how) cases x ~30 targets, {} violating", n, bad.len());
    if let Some(d) = bad.first() {
        emit_violation(ctx, rep, "C02", serde_json::json!({"part":"resize-at-every-fill-level","oracle":"geometry","observed":d}));
        rep.violations += bad.len() as u64 - 1;
    }
}

/// One logical line of every length under every small scrollback limit: a line taller than
/// the scrollback can hold crosses from the scrollback into the view while it is trimmed.
/// Lengths 0..=(limit + limit/10 + rows + 6) * cols, limits 0..=24 (thorough 0..=45), four
/// sizes, after 0 or many short lines, in one call / in pieces of 7 characters / through
/// feed() and then an empty call; all geometry invariants after every call.
fn long_lines_under_every_limit(ctx: &Ctx, rep: &mut Report) {
    use super::common::geometry_broken;
    use rayon::prelude::*;
    let max_l = ctx.tier.pick(24usize, 45);
    let mut cases: Vec<(usize, usize, usize)> = vec![];
    for l in 0..=max_l {
        for (si, _) in [(5usize, 3usize), (8, 4), (1, 2), (3, 1)].iter().enumerate() {
            for pre in [0usize, 40] {
                cases.push((l, si, pre));
            }
        }
    }
    let bad: Vec<String> = cases
        .par_iter()
        .filter_map(|&(l, si, pre)| {
            let (cols, rows) = [(5usize, 3usize), (8, 4), (1, 2), (3, 1)][si];
            let r = crate::engine::guarded(|| {
                let hard = l + l / 10;
                let short: String = (0..pre).map(|i| format!("{}\r\n", i % 10)).collect();
                for n in 0..=(hard + rows + 6) * cols {
                    let line: String = "abcdefghij".chars().cycle().take(n).collect();
                    for how in 0..3 {
                        let mut vt = build_vt(cols, rows, Some(l));
                        let _ = vt.feed_str(&short);
                        match how {
                            0 => {
                                let _ = vt.feed_str(&line);
                            }
                            1 => {
                                let mut i = 0;
                                while i < line.len() {
                                    let j = (i + 7).min(line.len());
                                    let _ = vt.feed_str(&line[i..j]);
                                    if let Some(w) = geometry_broken(&vt, (cols, rows)) {
                                        return Some(format!("a line of {} characters in pieces of 7, after {} of them: {}", n, j, w));
                                    }
                                    i = j;
                                }
                            }
                            _ => {
                                for ch in line.chars() {
                                    vt.feed(ch);
                                }
                                let _ = vt.feed_str("");
                            }
                        }
                        if let Some(w) = geometry_broken(&vt, (cols, rows)) {
                            return Some(format!("a line of {} characters ({}): {}", n, ["one call", "pieces of 7", "feed() per character, then an empty call"][how], w));
                        }
                        let _ = vt.feed_str("\r\nz");
                        if let Some(w) = geometry_broken(&vt, (cols, rows)) {
                            return Some(format!("a line of {} characters, then CR LF z: {}", n, w));
                        }
                    }
                }
                None
            });
            match r {
                Ok(None) => None,
                Ok(Some(d)) => Some(format!("{}x{}, limit {}, after {} short lines: {}", cols, rows, l, pre, d)),
                Err(p) => Some(format!("{}x{}, limit {}, after {} short lines: panic: {}", cols, rows, l, pre, p)),
            }
        })
        .collect();
    let n = cases.len() as u64;
    rep.evaluations += n * 100;
    rep.transitions += n * 100;
    rep.parts.push(serde_json::json!({"part":"long-lines-under-every-limit","max_limit":max_l,"cases":n,"violating":bad.len()}));
    println!("part long-lines-under-every-limit: {} (limit, size, prefix) cases x every line length, {} violating", n, bad.len());
    if let Some(d) = bad.first() {
        emit_violation(ctx, rep, "C02", serde_json::json!({"part":"long-lines-under-every-limit","oracle":"geometry","observed":d}));
        rep.violations += bad.len() as u64 - 1;
    }
}

pub fn run(ctx: &Ctx) -> Report {
    let mut rep = Report::new();
    let (main, deep) = parts!(ctx.tier);
    run_part(ctx, &mut rep, &main);
    run_part(ctx, &mut rep, &deep);
    run_part(ctx, &mut rep, &core_part(ctx.tier));
    run_part(ctx, &mut rep, &tabs_part(ctx.tier));
    run_part(ctx, &mut rep, &runs_part(ctx.tier));
    extreme_sizes(ctx, &mut rep);
    every_height_pair(ctx, &mut rep);
    resize_at_every_fill_level(ctx, &mut rep);
    long_lines_under_every_limit(ctx, &mut rep);
    rep.rule = "BFS over op histories from power-on, dedup on the Debug fingerprint of the whole Vt; every transition is one public call (feed_str with drained/dropped Changes, feed per char, resize) after which all C02 invariants are evaluated; distinct = distinct implementation states; extreme-sizes: geometries at and beyond the 16-bit boundary through resize() and the builder, invariants after every call".into();
    rep.assumptions = vec![
        "screens limited to the configured tiny sizes and resize targets".into(),
        "wrap-pending origin is judged with an over-approximation of 'the call printed something' (any printable char in the input)".into(),
    ];
    rep
}

pub fn replay(ctx: &Ctx, v: &Value) -> bool {
    if v["part"] == "extreme-sizes" {
        let mut rep = Report::new();
        let c2 = Ctx { id: ctx.id.clone(), tier: if v["tier"] == "thorough" { Tier::Thorough } else { Tier::Quick }, seed: 0, start: ctx.start, known: ctx.known.clone(), replay_dir: ctx.replay_dir.clone() };
        extreme_sizes(&c2, &mut rep);
        return rep.violations > 0;
    }
    let tier = if v["tier"] == "thorough" { Tier::Thorough } else { Tier::Quick };
    if v["part"] == "every-height-pair" || v["part"] == "resize-at-every-fill-level" || v["part"] == "long-lines-under-every-limit" {
        let mut rep = Report::new();
        let c2 = Ctx { id: ctx.id.clone(), tier, seed: 0, start: ctx.start, known: ctx.known.clone(), replay_dir: ctx.replay_dir.clone() };
        every_height_pair(&c2, &mut rep);
        resize_at_every_fill_level(&c2, &mut rep);
        long_lines_under_every_limit(&c2, &mut rep);
        return rep.violations > 0;
    }
    let (main, deep) = parts!(tier);
    match v["part"].as_str().unwrap_or("") {
        "all-functions" => replay_part(ctx, &main, v),
        "alt-resize-deep" => replay_part(ctx, &deep, v),
        "save-alt-resize-core-deep" => replay_part(ctx, &core_part(tier), v),
        "tab-moves-across-width-changes" => replay_part(ctx, &tabs_part(tier), v),
        "text-and-rep-runs-from-every-placement" => replay_part(ctx, &runs_part(tier), v),
        p => {
            println!("unknown part {}", p);
            false
        }
    }
}
