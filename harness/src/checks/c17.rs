//! C17 — save/restore cursor round-trips the full context, per screen.

use crate::lockstep::LockStep;
use crate::ops::Cmd::*;
use crate::ops::*;
use crate::report::*;
use serde_json::Value;

fn alpha(cfg: &Cfg) -> Vec<Op> {
    let rows = cfg.rows as u32;
    let mut v: Vec<Op> = vec![
        c(Decsc),
        c(Scosc),
        c8(Scosc),
        c(DecSet(vec![1048])),
        c(DecSet(vec![1049])),
        c(Decrc),
        c(Scorc),
        c8(Scorc),
        c(DecRst(vec![1048])),
        c(DecRst(vec![1049])),
        c(Cup(None, None)),
        c(Cup(Some(99), Some(99))),
        c(Cup(Some(2), Some(2))),
        t("a"),
        Op::text(&"w".repeat(cfg.cols)),
        c(sgr1(41)),
        c(sgr1(1)),
        c(sgr1(0)),
        c(DecSet(vec![6])),
        c(DecRst(vec![6])),
        c(DecRst(vec![7])),
        c(DecSet(vec![7])),
        c(Decstbm(Some(2), Some(rows))),
        c(Decstbm(Some(1), Some(rows.saturating_sub(1)))),
        c(Decstbm(None, None)),
        // park the cursor below / above the region with origin mode on (only reachable via restore)
        c(Seq(vec![DecSet(vec![6]), Cup(Some(99), Some(2)), Decsc, Decstbm(Some(1), Some(rows.saturating_sub(1))), Decrc])),
        c(Seq(vec![DecSet(vec![6]), Cup(Some(1), Some(2)), Decsc, Decstbm(Some(2), Some(rows)), Decrc])),
        c(DecSet(vec![47])),
        c(DecRst(vec![47])),
        c(DecSet(vec![1047])),
        c(DecRst(vec![1047])),
        c(Decstr),
    ];
    v.push(Op::resize(cfg.cols.max(2) - 1, cfg.rows.max(2) - 1));
    v.push(Op::resize(cfg.cols + 1, cfg.rows + 1));
    v.push(Op::resize(1, 1));
    v.push(Op::resize(cfg.cols, cfg.rows));
    v
}

/// quick tier: the 3x3 screen one level less deep than 2x2
fn shallow_part(tier: Tier) -> Part<'static, LockStep> {
    Part {
        name: "save-restore-lockstep-3x3",
        sys: &SYS,
        cfgs: match tier {
            Tier::Quick => cfgs(&[(3, 3)], &[None]),
            Tier::Thorough => vec![],
        },
        alphabet: &alpha,
        depth: 4,
        seconds: 40.0,
        validated: true,
        nontrivial: Some("lockstep_transitions"),
    }
}

macro_rules! parts {
    ($tier:expr, $sys:expr) => {{
        let tier: Tier = $tier;
        Part {
            name: "save-restore-lockstep",
            sys: $sys,
            cfgs: match tier {
                Tier::Quick => cfgs(&[(2, 2)], &[None]),
                Tier::Thorough => cfgs(&[(3, 3), (2, 2), (4, 2), (1, 2)], &[None]),
            },
            alphabet: &alpha,
            depth: tier.pick(5, 6),
            seconds: tier.pick(60.0, 2400.0),
            validated: true,
            nontrivial: Some("lockstep_transitions"),
        }
    }};
}

static SYS: LockStep = LockStep { property: "C17", probes: true, seed: None };

static SYS_MODES: LockStep = LockStep { property: "C17", probes: false, seed: None };

pub fn run(ctx: &Ctx) -> Report {
    let mut rep = Report::new();
    let p = parts!(ctx.tier, &SYS);
    run_part(ctx, &mut rep, &p);
    if ctx.tier == Tier::Quick {
        run_part(ctx, &mut rep, &shallow_part(ctx.tier));
    }
    run_part(ctx, &mut rep, &super::sweep::mode_part(&SYS_MODES, ctx.tier));
    super::sweep::mode_number_sweep(ctx, &mut rep, &SYS_MODES);
    rep.rule = "lock-step BFS of (real Vt, reference terminal keeping one optional saved context per screen) over the four save and four restore spellings (7- and 8-bit), cursor placement incl. the wrap-pending column, pens, DECOM/DECAWM toggles, margins, 47/1047/1049 switches, DECSTR, resizes; after every transition the cursor, pen, origin and auto-wrap mode and BOTH saved contexts (hook) are compared; after a resize only 'inside the screen' is required of a restored position".into();
    rep.assumptions = vec!["R6: DECSTR and RIS discard the saved context of the showing screen / both screens".into()];
    rep
}

pub fn replay(ctx: &Ctx, v: &Value) -> bool {
    let tier = if v["tier"] == "thorough" { Tier::Thorough } else { Tier::Quick };
    if v["part"] == "save-restore-lockstep-3x3" {
        return replay_part(ctx, &shallow_part(Tier::Quick), v);
    }
    if v["part"] == "every-mode-number" {
        return super::sweep::mode_number_replay(ctx, &SYS_MODES);
    }
    if v["part"] == "mode-list-shapes" {
        return replay_part(ctx, &super::sweep::mode_part(&SYS_MODES, tier), v);
    }
    let p = parts!(tier, &SYS);
    replay_part(ctx, &p, v)
}
