//! C17 — save/restore cursor round-trips the full context, per screen.

use crate::lockstep::LockStep;
use crate::ops::Cmd::*;
use crate::ops::*;
use crate::report::*;
use serde_json::Value;

fn alpha(cfg: &Cfg) -> Vec<Op> {
    let rows = cfg.rows as u32;
    let mut v: Vec<Op> = vec![
        c(Decsc),
        c(Scosc),
        c8(Scosc),
        c(DecSet(vec![1048])),
        c(DecSet(vec![1049])),
        c(Decrc),
        c(Scorc),
        c8(Scorc),
        c(DecRst(vec![1048])),
        c(DecRst(vec![1049])),
        c(Cup(None, None)),
        c(Cup(Some(99), Some(99))),
        c(Cup(Some(2), Some(2))),
        t("a"),
        Op::text(&"w".repeat(cfg.cols)),
        c(sgr1(41)),
        c(sgr1(1)),
        c(sgr1(0)),
        c(DecSet(vec![6])),
        c(DecRst(vec![6])),
        c(DecRst(vec![7])),
        c(DecSet(vec![7])),
        c(Decstbm(Some(2), Some(rows))),
        c(Decstbm(Some(1), Some(rows.saturating_sub(1)))),
        c(Decstbm(None, None)),
        // park the cursor below / above the region with origin mode on (only reachable via restore)
        c(Seq(vec![DecSet(vec![6]), Cup(Some(99), Some(2)), Decsc, Decstbm(Some(1), Some(rows.saturating_sub(1))), Decrc])),
        c(Seq(vec![DecSet(vec![6]), Cup(Some(1), Some(2)), Decsc, Decstbm(Some(2), Some(rows)), Decrc])),
        c(DecSet(vec![47])),
        c(DecRst(vec![47])),
        c(DecSet(vec![1047])),
        c(DecRst(vec![1047])),
        c(Decstr),
        // "regardless of what was executed in between": sequences that look like saves,
        // restores or mode switches but are none (a private marker, an intermediate, a
        // different final) leave both saved contexts alone
        Op::new(Inert("\x1b[?7s".into())),
        Op::new(Inert("\x1b[?6s".into())),
        Op::new(Inert("\x1b[?7r".into())),
        Op::new(Inert("\x1b[?6;7r".into())),
        Op::new(Inert("\x1b[?1048s".into())),
        Op::new(Inert("\x1b[>s".into())),
        Op::new(Inert("\x1b[?u".into())),
        Op::new(Inert("\x1b[1 s".into())),
        Op::new(Inert("\x1b 7".into())),
        Op::new(Inert("\x1b#7".into())),
        Op::new(Inert("\x1b[#{".into())),
        Op::new(Inert("\x1b[#}".into())),
        Op::new(Inert("\x1b[?25s".into())),
        Op::new(Inert("\x1b[?25r".into())),
        Op::new(Inert("\x1b[61\"p".into())),
    ];
    v.push(Op::resize(cfg.cols.max(2) - 1, cfg.rows.max(2) - 1));
    v.push(Op::resize(cfg.cols + 1, cfg.rows + 1));
    v.push(Op::resize(1, 1));
    v.push(Op::resize(cfg.cols, cfg.rows));
    v
}

/// quick tier: the 3x3 screen one level less deep than 2x2
fn shallow_part(tier: Tier) -> Part<'static, LockStep> {
    Part {
        name: "save-restore-lockstep-3x3",
        sys: &SYS,
        cfgs: match tier {
            Tier::Quick => cfgs(&[(3, 3)], &[None]),
            Tier::Thorough => vec![],
        },
        alphabet: &alpha,
        depth: 4,
        seconds: 40.0,
        validated: true,
        nontrivial: Some("lockstep_transitions"),
    }
}

macro_rules! parts {
    ($tier:expr, $sys:expr) => {{
        let tier: Tier = $tier;
        Part {
            name: "save-restore-lockstep",
            sys: $sys,
            cfgs: match tier {
                Tier::Quick => cfgs(&[(2, 2)], &[None]),
                Tier::Thorough => cfgs(&[(3, 3), (2, 2), (4, 2), (1, 2)], &[None]),
            },
            alphabet: &alpha,
            depth: tier.pick(5, 6),
            seconds: tier.pick(60.0, 2400.0),
            validated: true,
            nontrivial: Some("lockstep_transitions"),
        }
    }};
}

static SYS: LockStep = LockStep { property: "C17", probes: true, seed: None, via_feed: false, merged: false };

/// the core of the save / restore interplay, twice as deep
fn alpha_core(cfg: &Cfg) -> Vec<Op> {
    let rows = cfg.rows as u32;
    vec![
        c(Decsc),
        c(Decrc),
        c(DecSet(vec![1049])),
        c(DecRst(vec![1049])),
        c(DecSet(vec![1047])),
        c(DecRst(vec![1047])),
        c(DecSet(vec![47])),
        c(Cup(Some(99), Some(99))),
        c(Cup(None, None)),
        t("a"),
        c(sgr1(41)),
        c(DecSet(vec![6])),
        c(DecRst(vec![7])),
        c(Decstbm(Some(2), Some(rows))),
        c(Decstr),
        c(DecSet(vec![7])),
        Op::new(Inert("\x1b[?7s".into())),
        Op::new(Inert("\x1b[?6;7r".into())),
        Op::resize(cfg.cols.max(2) - 1, cfg.rows.max(2) - 1),
        Op::resize(cfg.cols, cfg.rows),
    ]
}

/// ... plus: something in the scrollback, a window that only grows taller, and the way back
/// with the restore in ONE call
fn alpha_core_one_call(cfg: &Cfg) -> Vec<Op> {
    let mut v = alpha_core(cfg);
    v.extend([
        c(Lf),
        Op::resize(cfg.cols, cfg.rows + 1),
        // the way back and the restore in ONE call (no call boundary between them)
        c(Seq(vec![DecRst(vec![1047]), Decrc])).at(0xF8),
        c(DecRst(vec![47, 1048])).at(0xF8),
        c(Seq(vec![DecSet(vec![1047]), Decrc])).at(0xF8),
        c(Seq(vec![DecRst(vec![1049]), Scorc])).at(0xF8),
    ]);
    v
}

static SYS_MERGED: LockStep = LockStep { property: "C17", probes: false, seed: None, via_feed: false, merged: true };

fn core_one_call_part(tier: Tier) -> Part<'static, LockStep> {
    Part {
        name: "save-restore-core-with-merged-calls",
        sys: &SYS_MERGED,
        cfgs: match tier {
            Tier::Quick => cfgs(&[(2, 3)], &[None]),
            Tier::Thorough => cfgs(&[(2, 3), (3, 3)], &[None]),
        },
        alphabet: &alpha_core_one_call,
        depth: tier.pick(5, 7),
        seconds: tier.pick(15.0, 900.0),
        validated: true,
        nontrivial: Some("lockstep_transitions"),
    }
}

fn core_part(tier: Tier) -> Part<'static, LockStep> {
    Part {
        name: "save-restore-core-deep",
        sys: &SYS_MODES,
        cfgs: match tier {
            Tier::Quick => cfgs(&[(2, 3)], &[None]),
            Tier::Thorough => cfgs(&[(2, 3), (3, 3), (2, 2)], &[None]),
        },
        alphabet: &alpha_core,
        depth: tier.pick(7, 9),
        seconds: tier.pick(20.0, 1800.0),
        validated: true,
        nontrivial: Some("lockstep_transitions"),
    }
}

static SYS_MODES: LockStep = LockStep { property: "C17", probes: false, seed: None, via_feed: false, merged: false };

/// Far positions: save and restore at rows / columns around every power-of-two and type
/// boundary up to beyond 2^17, on screens that have them. Direct part (no reference
/// terminal: the screens are too large to compare cell by cell): the restored position is
/// the saved one and the next printed cell carries the saved pen.
fn far_positions(ctx: &Ctx, rep: &mut Report) {
    use rayon::prelude::*;
    let sizes: Vec<(usize, usize)> = ctx.tier.pick(
        vec![(3, 300), (300, 3), (3, 65600), (65600, 2), (2, 131100)],
        vec![(3, 300), (300, 3), (3, 33000), (33000, 2), (3, 65600), (65600, 2), (2, 70000), (70000, 2), (2, 131100), (131100, 2)],
    );
    let marks: [usize; 22] = [0, 1, 126, 127, 128, 254, 255, 256, 257, 32766, 32767, 32768, 65533, 65534, 65535, 65536, 65537, 65553, 65599, 131070, 131071, 131072];
    let pairs: [(&str, &str); 10] = [
        ("\x1b7", "\x1b8"),
        ("\x1b7", "\x1b[u"),
        ("\x1b7", "\x1b[?1048l"),
        ("\x1b[s", "\x1b8"),
        ("\x1b[s", "\x1b[u"),
        ("\x1b[s", "\x1b[?1048l"),
        ("\x1b[?1048h", "\x1b8"),
        ("\x1b[?1048h", "\x1b[u"),
        ("\x1b[?1048h", "\x1b[?1048l"),
        ("\x1b[?1049h", "\x1b[?1049l"),
    ];
    let mut cases: Vec<((usize, usize), (usize, usize), usize)> = vec![];
    for &(cols, rows) in &sizes {
        let mut rs: Vec<usize> = marks.iter().copied().filter(|&r| r < rows).collect();
        rs.push(rows - 1);
        let mut cs: Vec<usize> = marks.iter().copied().filter(|&c| c < cols).collect();
        cs.push(cols - 1);
        rs.sort();
        rs.dedup();
        cs.sort();
        cs.dedup();
        // rows vary on tall screens, columns on wide ones (the other coordinate: first and last)
        for &r in &rs {
            for &cc in &[0usize, cols - 1] {
                for k in 0..pairs.len() {
                    cases.push(((cols, rows), (cc, r), k));
                }
            }
        }
        for &cc in &cs {
            for &r in &[0usize, rows - 1] {
                for k in 0..pairs.len() {
                    cases.push(((cols, rows), (cc, r), k));
                }
            }
        }
    }
    cases.sort();
    cases.dedup();
    let goto = |col: usize, row: usize| -> String {
        // CUP parameters are 16-bit: go as far as they reach, then move relatively
        let (r1, c1) = (row.min(65000), col.min(65000));
        let mut s = format!("\x1b[{};{}H", r1 + 1, c1 + 1);
        let (mut dr, mut dc) = (row - r1, col - c1);
        while dr > 0 {
            let k = dr.min(60000);
            s.push_str(&format!("\x1b[{}B", k));
            dr -= k;
        }
        while dc > 0 {
            let k = dc.min(60000);
            s.push_str(&format!("\x1b[{}C", k));
            dc -= k;
        }
        s
    };
    let bad: Vec<String> = cases
        .par_iter()
        .filter_map(|&((cols, rows), (col, row), k)| {
            let (save, restore) = pairs[k];
            let r = crate::engine::guarded(|| {
                let mut vt = build_vt(cols, rows, Some(0));
                let _ = vt.feed_str(&goto(col, row));
                let c0 = vt.cursor();
                if (c0.col, c0.row) != (col, row) {
                    return None; // the position itself was not reached: C05's matter
                }
                let _ = vt.feed_str("\x1b[1;33m");
                let _ = vt.feed_str(save);
                let _ = vt.feed_str("\x1b[H\x1b[0;44mz\x1b[2;2H");
                let _ = vt.feed_str(restore);
                let c1 = vt.cursor();
                if (c1.col, c1.row) != (col, row) {
                    return Some(format!("restored to ({}, {})", c1.col, c1.row));
                }
                let _ = vt.feed_str("x");
                let cell = &vt.view()[row].cells()[col];
                let pen = cell.pen();
                if cell.char() != 'x' || !pen.is_bold() || pen.foreground() != Some(avt::Color::Indexed(3)) || pen.background().is_some() {
                    return Some(format!("the cell printed after the restore is {:?} with pen {:?}", cell.char(), pen));
                }
                None
            });
            match r {
                Ok(None) => None,
                Ok(Some(d)) => Some(format!("{}x{}: saved at (col {}, row {}) with {} and restored with {}: {}", cols, rows, col, row, esc(save), esc(restore), d)),
                Err(p) => Some(format!("{}x{}: save at (col {}, row {}) {} {}: panic: {}", cols, rows, col, row, esc(save), esc(restore), p)),
            }
        })
        .collect();
    let n = cases.len() as u64;
    rep.evaluations += n;
    rep.traces_validated += n;
    rep.transitions += n;
    rep.parts.push(serde_json::json!({"part":"far-positions","sizes":sizes.iter().map(|s| format!("{}x{}", s.0, s.1)).collect::<Vec<_>>(),"cases":n,"violating":bad.len()}));
    println!("part far-positions: {} (size, position, save / restore pair) cases, {} violating", n, bad.len());
    if let Some(d) = bad.first() {
        emit_violation(ctx, rep, "C17", serde_json::json!({"part":"far-positions","oracle":"restored-position-and-pen","observed":d}));
        rep.violations += bad.len() as u64 - 1;
    }
}

pub fn run(ctx: &Ctx) -> Report {
    let mut rep = Report::new();
    let p = parts!(ctx.tier, &SYS);
    run_part(ctx, &mut rep, &p);
    if ctx.tier == Tier::Quick {
        run_part(ctx, &mut rep, &shallow_part(ctx.tier));
    }
    run_part(ctx, &mut rep, &core_part(ctx.tier));
    run_part(ctx, &mut rep, &core_one_call_part(ctx.tier));
    run_part(ctx, &mut rep, &super::sweep::mode_part(&SYS_MODES, ctx.tier));
    super::sweep::mode_number_sweep(ctx, &mut rep, &SYS_MODES);
    far_positions(ctx, &mut rep);
    rep.rule = "lock-step BFS of (real Vt, reference terminal keeping one optional saved context per screen) over the four save and four restore spellings (7- and 8-bit), cursor placement incl. the wrap-pending column, pens, DECOM/DECAWM toggles, margins, 47/1047/1049 switches, DECSTR, resizes; after every transition the cursor, pen, origin and auto-wrap mode and BOTH saved contexts (hook) are compared; after a resize only 'inside the screen' is required of a restored position".into();
    rep.assumptions = vec!["R6: DECSTR and RIS discard the saved context of the showing screen / both screens".into()];
    rep
}

pub fn replay(ctx: &Ctx, v: &Value) -> bool {
    let tier = if v["tier"] == "thorough" { Tier::Thorough } else { Tier::Quick };
    if v["part"] == "save-restore-lockstep-3x3" {
        return replay_part(ctx, &shallow_part(Tier::Quick), v);
    }
    if v["part"] == "save-restore-core-deep" {
        return replay_part(ctx, &core_part(tier), v);
    }
    if v["part"] == "save-restore-core-with-merged-calls" {
        return replay_part(ctx, &core_one_call_part(tier), v);
    }
    if v["part"] == "far-positions" {
        let mut rep = Report::new();
        let c2 = Ctx { id: ctx.id.clone(), tier, seed: 0, start: ctx.start, known: ctx.known.clone(), replay_dir: ctx.replay_dir.clone() };
        far_positions(&c2, &mut rep);
        return rep.violations > 0;
    }
    if v["part"] == "every-mode-number" {
        return super::sweep::mode_number_replay(ctx, &SYS_MODES);
    }
    if v["part"] == "mode-list-shapes" {
        return replay_part(ctx, &super::sweep::mode_part(&SYS_MODES, tier), v);
    }
    let p = parts!(tier, &SYS);
    replay_part(ctx, &p, v)
}
