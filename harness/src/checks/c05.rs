//! C05 — cursor movement and addressing (lock-step with RefTerm).

use crate::lockstep::LockStep;
use crate::ops::Cmd::*;
use crate::ops::*;
use crate::report::*;
use serde_json::Value;

fn alpha(cfg: &Cfg) -> Vec<Op> {
    let rows = cfg.rows as u32;
    let cols = cfg.cols as u32;
    let mut v: Vec<Op> = vec![];
    let params: Vec<P> = vec![None, Some(0), Some(1), Some(2), Some(65535)];
    // setup first (simplest)
    v.push(t("a"));
    v.push(Op::text(&"w".repeat(cfg.cols)));
    for p in &params {
        v.push(c(Cuu(*p)));
        v.push(c(Cud(*p)));
        v.push(c(Cuf(*p)));
        v.push(c(Cub(*p)));
    }
    v.push(c(Cuu(Some(rows))));
    v.push(c(Cud(Some(rows.saturating_sub(1).max(1)))));
    v.push(c(Cuf(Some(cols))));
    v.push(c(Cub(Some(cols.saturating_sub(1).max(1)))));
    v.push(calt(Cuf(Some(1)), 1)); // HPR
    v.push(c8(Cub(Some(1))));
    v.push(c(Cnl(None)));
    v.push(c(Cnl(Some(2))));
    v.push(c(Cpl(None)));
    v.push(c(Cpl(Some(2))));
    v.push(c(Vpr(None)));
    v.push(c(Vpr(Some(2))));
    v.push(c(Bs));
    v.push(c(Cr));
    v.push(c(Ht));
    v.push(c(Cht(Some(2))));
    v.push(c(Cbt(None)));
    v.push(c(Lf));
    v.push(calt(Lf, 1));
    v.push(calt(Lf, 2));
    v.push(calt(Lf, 3));
    for x in [Some(0), Some(65535)] {
        v.push(c(Cnl(x)));
        v.push(c(Cpl(x)));
        v.push(c(Vpr(x)));
        v.push(c(Vpa(x)));
        v.push(c(Cha(x)));
        v.push(c(Cht(x)));
        v.push(c(Cbt(x)));
    }
    v.push(c8(Cup(Some(2), Some(1))));
    v.push(c8(Cuu(None)));
    v.push(c8(Nel));
    v.push(c(Nel));
    v.push(c(Ri));
    v.push(c8(Ri));
    for r in [None, Some(1), Some(2), Some(rows), Some(rows + 1)] {
        for cc in [None, Some(1), Some(2), Some(cols), Some(cols + 1)] {
            v.push(c(Cup(r, cc)));
        }
    }
    v.push(calt(Cup(Some(2), Some(2)), 1)); // HVP
    v.push(czero(Cup(None, None)));
    v.push(c(Cha(None)));
    v.push(c(Cha(Some(2))));
    v.push(c(Cha(Some(cols + 1))));
    v.push(calt(Cha(Some(1)), 1)); // HPA
    v.push(c(Vpa(None)));
    v.push(c(Vpa(Some(2))));
    v.push(c(Vpa(Some(rows))));
    v.push(c(Vpa(Some(rows + 1))));
    v.push(c(DecSet(vec![6])));
    v.push(c(DecRst(vec![6])));
    // the only way to park the cursor outside the region with origin mode on:
    // save it there while the region is still the full screen, shrink the region, restore
    v.push(c(Decsc));
    v.push(c(Decrc));
    // wrap-pending with auto-wrap switched off afterwards is still "on the last column" (R1)
    v.push(c(DecRst(vec![7])));
    v.push(c(DecSet(vec![7])));
    v.push(c(Seq(vec![DecSet(vec![6]), Cup(Some(99), Some(2)), Decsc, Decstbm(Some(1), Some(rows.saturating_sub(1))), Decrc])));
    v.push(c(Seq(vec![DecSet(vec![6]), Cup(Some(1), Some(2)), Decsc, Decstbm(Some(2), Some(rows)), Decrc])));
    v.push(c(Seq(vec![Cup(Some(99), Some(1)), Decsc, Decstbm(Some(1), Some(rows.saturating_sub(1))), Decrc])));
    // margin pairs, valid and invalid
    for (a, b) in [
        (None, None),
        (Some(1), Some(rows.saturating_sub(1))),
        (Some(2), Some(rows)),
        (Some(2), Some(rows.saturating_sub(1))),
        (Some(2), None),
        (Some(2), Some(2)),
        (Some(rows), Some(1)),
        (Some(1), Some(rows + 1)),
        (Some(0), Some(0)),
    ] {
        v.push(c(Decstbm(a, b)));
    }
    // a C0 control is executed wherever it arrives - also inside a sequence that is already
    // malformed (the rest of that sequence is swallowed)
    v.push(Op::spelled(Lf, "\x1b[:\nm"));
    v.push(Op::spelled(Bs, "\x1b[5?\x08m"));
    v.push(Op::spelled(Cr, "\x1b[2 3\rm"));
    v.push(Op::spelled(Ht, "\u{9b}:\tm"));
    // ... and a command means what it says whatever was ignored before it
    v.push(Op::spelled(Cud(None), "\u{9b}5?B\u{9b}B"));
    v.push(Op::spelled(Cup(None, None), "\u{9b}2;2 3H\u{9b}H"));
    v.push(Op::spelled(Cuf(None), "\x1b[3:4$~\u{9b}C"));
    v.push(Op::spelled(Cha(Some(2)), "\u{9b}5?G\x18\u{9b}2G"));
    // ... nor whatever odd parameter shapes an earlier (complete, harmless) sequence had
    v.push(Op::spelled(Cud(Some(2)), "\x1b[0:4m\x1b[2B"));
    v.push(Op::spelled(Cup(Some(2), Some(2)), "\x1b[8;:2m\x1b[2;2H"));
    v.push(Op::spelled(Cuf(Some(2)), "\x1b[:;0:0:7;:m\u{9b}2C"));
    // parameters written with leading zeros: the value is what the digits say, however many
    v.push(Op::spelled(Cud(Some(2)), "\x1b[000002B"));
    v.push(Op::spelled(Cuf(Some(2)), "\x1b[0000000002C"));
    v.push(Op::spelled(Cup(Some(2), Some(2)), "\x1b[000002;0000002H"));
    v.push(Op::spelled(Cha(Some(2)), "\x1b[00000000000000000002G"));
    v.push(Op::spelled(Vpa(Some(2)), "\u{9b}0000002d"));
    v.push(Op::spelled(Cub(Some(1)), "\x1b[000000D"));
    v.push(Op::resize(cfg.cols, cfg.rows + 1));
    v.push(Op::resize(cfg.cols + 1, cfg.rows));
    v.push(Op::resize(cfg.cols.max(2) - 1, cfg.rows.max(2) - 1));
    v
}

macro_rules! parts {
    ($tier:expr, $sys:expr) => {{
        let tier: Tier = $tier;
        Part {
            name: "moves-lockstep",
            sys: $sys,
            cfgs: match tier {
                Tier::Quick => cfgs(&[(2, 2), (2, 4), (9, 2)], &[None]),
                Tier::Thorough => cfgs(&[(1, 1), (1, 2), (2, 1), (2, 2), (3, 2), (2, 3), (3, 3), (4, 3), (2, 4), (2, 5), (9, 2)], &[None]),
            },
            alphabet: &alpha,
            depth: tier.pick(4, 5),
            seconds: tier.pick(75.0, 2400.0),
            validated: true,
            nontrivial: Some("lockstep_transitions"),
        }
    }};
}

static SYS: LockStep = LockStep { property: "C05", probes: true, seed: None, via_feed: false, merged: false };
static SYS_MED: LockStep = LockStep { property: "C05", probes: false, seed: None, via_feed: false, merged: false };

/// the same commands on a screen that is not tiny, with mid-range parameters
fn alpha_medium(cfg: &Cfg) -> Vec<Op> {
    let mut v = alpha(cfg);
    for n in [3u32, 4, 7, 255, 256, 257] {
        for cmd in [Cuu(Some(n)), Cud(Some(n)), Cuf(Some(n)), Cub(Some(n)), Cnl(Some(n)), Cpl(Some(n)), Vpr(Some(n)), Cha(Some(n)), Vpa(Some(n)), Cht(Some(n)), Cbt(Some(n))] {
            v.push(c(cmd));
        }
    }
    for (r, cc) in [(3u32, 4u32), (4, 6), (5, 7), (256, 256), (3, 256)] {
        v.push(c(Cup(Some(r), Some(cc))));
    }
    for (a, b) in [(2u32, 4u32), (3, 4), (3, 5), (4, 5), (2, 256)] {
        v.push(c(Decstbm(Some(a), Some(b))));
    }
    // tab movement over edited and reset stop lists (the edits themselves belong to C18)
    for col in [9u32, 17, 25] {
        v.push(c(Cha(Some(col))));
    }
    v.push(c(Hts));
    v.push(c(Tbc(None)));
    v.push(c(Tbc(Some(3))));
    v.push(c(Ris));
    // a width change that brings new default stops with it
    v.push(Op::resize(cfg.cols + 8, cfg.rows));
    v.push(Op::resize(cfg.cols + 17, cfg.rows));
    v
}

fn medium_part(tier: Tier) -> Part<'static, LockStep> {
    Part {
        name: "moves-lockstep-medium-screen",
        sys: &SYS_MED,
        cfgs: match tier {
            Tier::Quick => cfgs(&[(7, 5), (26, 2)], &[None]),
            Tier::Thorough => cfgs(&[(7, 5), (6, 6), (17, 5), (26, 2), (33, 3)], &[None]),
        },
        alphabet: &alpha_medium,
        depth: tier.pick(3, 4),
        seconds: tier.pick(20.0, 1800.0),
        validated: true,
        nontrivial: Some("lockstep_transitions"),
    }
}

static SYS_SWEEP: LockStep = LockStep { property: "C05", probes: false, seed: Some(&super::sweep::fill), via_feed: false, merged: false };

fn alpha_sweep(cfg: &Cfg) -> Vec<Op> {
    let mut v = super::sweep::placements(cfg, false);
    v.extend(super::sweep::move_funcs(cfg));
    // tab movement over hand-set stops: every single stop and every pair of stops,
    // with the cursor then at the left or the right edge (HT / CHT n / CBT n follow)
    let cols = cfg.cols as u32;
    for c1 in 2..cols {
        for end in [1, cols] {
            v.push(c(Seq(vec![Cha(Some(c1)), Hts, Cha(Some(end))])));
        }
        for c2 in c1 + 1..cols {
            for end in [1, cols] {
                v.push(c(Seq(vec![Cha(Some(c1)), Hts, Cha(Some(c2)), Hts, Cha(Some(end))])));
            }
        }
    }
    v.push(c(Tbc(Some(3))));
    // the addressable rows after a RESTORE changed origin mode (saved in one mode, restored
    // from the other), for every way of saving - the functions above then address every cell
    let rows = cfg.rows as u32;
    for (a, b) in [(None, None), (Some(3), Some(rows - 2)), (Some(1), Some(rows / 2 + 1)), (Some(rows / 2), Some(rows))] {
        for target in [false, true] {
            let m = |on: bool| if on { DecSet(vec![6]) } else { DecRst(vec![6]) };
            for (save, restore) in [(Decsc, Decrc), (Scosc, Scorc), (DecSet(vec![1048]), DecRst(vec![1048])), (DecSet(vec![1049]), DecRst(vec![1049]))] {
                v.push(c(Seq(vec![Decstbm(a, b), m(target), save.clone(), m(!target), restore.clone()])));
                v.push(c(Seq(vec![m(target), save, Decstbm(a, b), m(!target), restore])));
            }
        }
    }
    v
}

static SYS_MODES: LockStep = LockStep { property: "C05", probes: false, seed: None, via_feed: false, merged: false };

fn alpha_wide(cfg: &Cfg) -> Vec<Op> {
    super::sweep::layered(super::sweep::wide_placements(cfg), super::sweep::wide_move_funcs(cfg))
}

/// tab movement over edited stop lists on the realistic screen (its own layered part:
/// the placements below x the tab functions only)
fn alpha_wide_tabs(cfg: &Cfg) -> Vec<Op> {
    let mut place: Vec<Op> = vec![];
    // edited tab-stop lists: a default stop cleared (none, an early, a middle, the last one),
    // then one or two stops set left / right of it, the cursor then at the left or right edge
    let cols = cfg.cols as u32;
    let defaults: Vec<u32> = (1..).map(|k| k * 8 + 1).take_while(|&c| c <= cols).collect();
    let mut clears: Vec<Option<u32>> = vec![None];
    for &c in [defaults.first(), defaults.get(1), defaults.get(defaults.len() / 2), defaults.last()].iter().flatten() {
        clears.push(Some(*c));
    }
    clears.dedup();
    let sets: Vec<u32> = [3u32, 12, 13, 20, cols / 2 + 3, cols - 2].into_iter().filter(|&c| c >= 2 && c < cols).collect();
    for clr in &clears {
        for (i, &s1) in sets.iter().enumerate() {
            for s2 in std::iter::once(None).chain(sets[i + 1..].iter().map(|&x| Some(x))) {
                for end in [1, cols] {
                    let mut seq = vec![];
                    if let Some(c0) = clr {
                        seq.push(Cha(Some(*c0)));
                        seq.push(Tbc(None));
                    }
                    // the later stop first, then the earlier one (insertion before existing stops)
                    if let Some(x) = s2 {
                        seq.push(Cha(Some(x)));
                        seq.push(Hts);
                    }
                    seq.push(Cha(Some(s1)));
                    seq.push(Hts);
                    seq.push(Cha(Some(end)));
                    place.push(c(Seq(seq)));
                }
            }
        }
    }
    let mut funcs = vec![c(Ht), c(Seq(vec![Ht, Ht, Ht])), c(Cbt(None))];
    for n in 0..=(cols / 8 + 4) {
        funcs.push(c(Cht(Some(n))));
        funcs.push(c(Cbt(Some(n))));
    }
    for x in [255u32, 256, 65535] {
        funcs.push(c(Cht(Some(x))));
        funcs.push(c(Cbt(Some(x))));
    }
    super::sweep::layered(place, funcs)
}

pub fn run(ctx: &Ctx) -> Report {
    let mut rep = Report::new();
    let p = parts!(ctx.tier, &SYS);
    run_part(ctx, &mut rep, &p);
    run_part(ctx, &mut rep, &medium_part(ctx.tier));
    run_part(ctx, &mut rep, &super::sweep::sweep_part("moves-large-screen-parameter-sweep", &SYS_SWEEP, &alpha_sweep, ctx.tier));
    run_part(ctx, &mut rep, &super::sweep::wide_part("moves-realistic-screen-parameter-sweep", &SYS_SWEEP, &alpha_wide, ctx.tier));
    run_part(ctx, &mut rep, &super::sweep::wide_part("tab-moves-over-edited-stops-realistic-screen", &SYS_SWEEP, &alpha_wide_tabs, ctx.tier));
    run_part(ctx, &mut rep, &super::sweep::mode_part(&SYS_MODES, ctx.tier));
    super::sweep::mode_number_sweep(ctx, &mut rep, &SYS_MODES);
    rep.rule = "lock-step BFS of (real Vt, reference terminal) over every movement command x parameter class x spelling, DECOM, valid and invalid DECSTBM pairs, text to reach wrap-pending, resizes; after every transition all cells of lines(), the cursor and the specified wrap marks are compared; a probe layer at every new state exposes margins, origin mode, tab stops and saved contexts".into();
    rep.assumptions = vec!["readings R1-R7 of DESIGN.md §3.2 (wrap-pending column compared as min(col, cols-1) after vertical moves)".into()];
    rep
}

pub fn replay(ctx: &Ctx, v: &Value) -> bool {
    let tier = if v["tier"] == "thorough" { Tier::Thorough } else { Tier::Quick };
    if v["part"] == "moves-lockstep-medium-screen" {
        return replay_part(ctx, &medium_part(tier), v);
    }
    if v["part"] == "every-mode-number" {
        return super::sweep::mode_number_replay(ctx, &SYS_MODES);
    }
    if v["part"] == "mode-list-shapes" {
        return replay_part(ctx, &super::sweep::mode_part(&SYS_MODES, tier), v);
    }
    if v["part"] == "tab-moves-over-edited-stops-realistic-screen" {
        return replay_part(ctx, &super::sweep::wide_part("tab-moves-over-edited-stops-realistic-screen", &SYS_SWEEP, &alpha_wide_tabs, tier), v);
    }
    if v["part"] == "moves-realistic-screen-parameter-sweep" {
        return replay_part(ctx, &super::sweep::wide_part("moves-realistic-screen-parameter-sweep", &SYS_SWEEP, &alpha_wide, tier), v);
    }
    if v["part"] == "moves-large-screen-parameter-sweep" {
        return replay_part(ctx, &super::sweep::sweep_part("moves-large-screen-parameter-sweep", &SYS_SWEEP, &alpha_sweep, tier), v);
    }
    let p = parts!(tier, &SYS);
    replay_part(ctx, &p, v)
}
