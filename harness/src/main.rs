mod alloc;
mod alphabets;
mod checks;
mod engine;
mod lockstep;
mod logical;
mod obs;
mod ops;
mod probes;
mod refparser;
mod refterm;
mod report;

use report::*;

#[global_allocator]
static GLOBAL: alloc::Counting = alloc::Counting;
use std::time::Instant;

fn usage() -> ! {
    eprintln!("usage: avtmc check <Cxx> <quick|thorough> | avtmc replay <file>");
    std::process::exit(2)
}

fn main() {
    let args: Vec<String> = std::env::args().collect();
    if args.len() < 3 {
        usage();
    }
    let seed = std::env::var("VERIF_SEED")
        .ok()
        .and_then(|s| s.parse::<i64>().ok())
        .unwrap_or(0);
    match args[1].as_str() {
        "check" => {
            let tier = match args.get(3).map(|s| s.as_str()) {
                Some("thorough") => Tier::Thorough,
                _ => Tier::Quick,
            };
            let ctx = Ctx {
                id: args[2].clone(),
                tier,
                seed,
                start: Instant::now(),
                known: KnownFindings::load(),
                replay_dir: format!("{}/replays", out_dir()),
            };
            let c2 = (ctx.id.clone(), ctx.replay_dir.clone());
            engine::set_hang_handler(Box::new(move |desc: &str| {
                std::fs::create_dir_all(&c2.1).ok();
                let path = format!("{}/{}-hang.json", c2.1, c2.0);
                let body = serde_json::json!({"property": c2.0, "check": c2.0, "hang": desc});
                std::fs::write(&path, serde_json::to_string_pretty(&body).unwrap()).ok();
                println!("VIOLATION property={} replay={}", c2.0, path);
                println!("call did not return within the watchdog limit: {}", desc);
                std::process::exit(1);
            }));
            let rep = match checks::run(&ctx) {
                Some(r) => r,
                None => {
                    eprintln!("no check for {}", ctx.id);
                    std::process::exit(2);
                }
            };
            if let Some(e) = &rep.harness_error {
                eprintln!("HARNESS ERROR: {}", e);
                std::process::exit(2);
            }
            write_evidence(&ctx, &rep);
            println!(
                "{} {}: states={} transitions={} validated={} violations={} exhaustive={} wall={:.1}s",
                ctx.id,
                ctx.tier.name(),
                rep.states,
                rep.transitions,
                rep.traces_validated,
                rep.violations,
                rep.exhaustive,
                ctx.start.elapsed().as_secs_f64()
            );
            std::process::exit(if rep.violations > 0 { 1 } else { 0 });
        }
        "replay" => {
            let s = std::fs::read_to_string(&args[2]).expect("read replay file");
            let v: serde_json::Value = serde_json::from_str(&s).expect("parse replay file");
            let ctx = Ctx {
                id: v["check"].as_str().unwrap_or("").to_string(),
                tier: Tier::Quick,
                seed,
                start: Instant::now(),
                known: KnownFindings::load(),
                replay_dir: "/tmp/avtmc-replays".into(),
            };
            engine::install_panic_hook();
            match checks::replay(&ctx, &v) {
                Some(true) => {
                    println!("REPLAY: still fails");
                    std::process::exit(1)
                }
                Some(false) => {
                    println!("REPLAY: passes");
                    std::process::exit(0)
                }
                None => {
                    eprintln!("no replay for {}", ctx.id);
                    std::process::exit(2)
                }
            }
        }
        _ => usage(),
    }
}
