mod alloc;
mod alphabets;
mod checks;
mod engine;
mod lockstep;
mod logical;
mod obs;
mod ops;
mod probes;
mod refparser;
mod refterm;
mod report;

use report::*;

#[global_allocator]
static GLOBAL: alloc::Counting = alloc::Counting;
use std::time::Instant;

fn usage() -> ! {
    eprintln!("usage: avtmc check <Cxx> <quick|thorough> | avtmc replay <file>");
    std::process::exit(2)
}

fn main() {
    let args: Vec<String> = std::env::args().collect();
    if args.len() < 3 {
        usage();
    }
    if args[1] == "selfcheck-dump" && args.len() < 4 {
        usage();
    }
    let seed = std::env::var("VERIF_SEED")
        .ok()
        .and_then(|s| s.parse::<i64>().ok())
        .unwrap_or(0);
    match args[1].as_str() {
        "check" => {
            let tier = match args.get(3).map(|s| s.as_str()) {
                Some("thorough") => Tier::Thorough,
                _ => Tier::Quick,
            };
            let ctx = Ctx {
                id: args[2].clone(),
                tier,
                seed,
                start: Instant::now(),
                known: KnownFindings::load(),
                replay_dir: format!("{}/replays", out_dir()),
            };
            let c2 = (ctx.id.clone(), ctx.replay_dir.clone());
            engine::set_hang_handler(Box::new(move |desc: &str| {
                std::fs::create_dir_all(&c2.1).ok();
                let path = format!("{}/{}-hang.json", c2.1, c2.0);
                let body = serde_json::json!({"property": c2.0, "check": c2.0, "hang": desc});
                std::fs::write(&path, serde_json::to_string_pretty(&body).unwrap()).ok();
                println!("VIOLATION property={} replay={}", c2.0, path);
                println!("call did not return within the watchdog limit: {}", desc);
                std::process::exit(1);
            }));
            engine::install_panic_hook();
            let rep = match engine::guarded(|| checks::run(&ctx)) {
                Ok(Some(r)) => r,
                Ok(None) => {
                    eprintln!("no check for {}", ctx.id);
                    std::process::exit(2);
                }
                Err(_) => {
                    // Every call into the library is made under catch_unwind by the parts
                    // themselves; this is only the backstop. A panic raised in the library's
                    // own source is a violation (the call did not produce what the property
                    // states), anything else is a defect of the machinery and no verdict.
                    let (msg, file) = engine::LAST_PANIC_ANY.lock().map(|g| g.clone()).unwrap_or_default();
                    let in_library = std::path::Path::new(&file).is_absolute()
                        && !file.contains("/.cargo/")
                        && !file.starts_with("/rustc/")
                        && !file.contains("/rustlib/");
                    if in_library {
                        std::fs::create_dir_all(&ctx.replay_dir).ok();
                        let path = format!("{}/{}-panic.json", ctx.replay_dir, ctx.id);
                        let body = serde_json::json!({"property": ctx.id, "check": ctx.id, "oracle": "panic", "observed": msg});
                        std::fs::write(&path, serde_json::to_string_pretty(&body).unwrap()).ok();
                        println!("VIOLATION property={} replay={}", ctx.id, path);
                        println!("the library panicked outside a guarded call: {}", msg);
                        std::process::exit(1);
                    }
                    eprintln!("HARNESS ERROR: panic in the machinery: {}", msg);
                    std::process::exit(2);
                }
            };
            if let Some(e) = &rep.harness_error {
                eprintln!("HARNESS ERROR: {}", e);
                std::process::exit(2);
            }
            write_evidence(&ctx, &rep);
            println!(
                "{} {}: states={} transitions={} validated={} violations={} exhaustive={} wall={:.1}s",
                ctx.id,
                ctx.tier.name(),
                rep.states,
                rep.transitions,
                rep.traces_validated,
                rep.violations,
                rep.exhaustive,
                ctx.start.elapsed().as_secs_f64()
            );
            std::process::exit(if rep.violations > 0 { 1 } else { 0 });
        }
        "selfcheck-dump" => {
            // engine side of the stateright cross-check: dump the set of fingerprints
            // reachable within <depth> for the fixed self-check alphabet on 2x2/unlimited
            let depth: usize = args[2].parse().unwrap();
            let cfg = ops::Cfg::new(2, 2, None);
            let alphabet = alphabets::a_altresize(&cfg, &[(1, 1), (3, 2), (2, 3)]);
            let sys = checks::c02::Sys;
            let mut counts = vec![];
            let mut last: Vec<u128> = vec![];
            for _ in 0..2 {
                let mut b = engine::Bfs::new(&sys, cfg, &alphabet, depth, "selfcheck");
                b.keep_states = true;
                let out = b.run();
                counts.push((out.states, out.transitions));
                let mut fps: Vec<u128> = out
                    .all_states
                    .iter()
                    .map(|h| {
                        let mut vt = cfg.build();
                        for &i in h {
                            let _ = ops::apply(&mut vt, &alphabet[i as usize]);
                        }
                        obs::fingerprint(&vt)
                    })
                    .collect();
                fps.sort();
                fps.dedup();
                last = fps;
            }
            assert_eq!(counts[0], counts[1], "two engine runs disagree");
            println!("engine: states {} transitions {} (identical in two runs)", counts[0].0, counts[0].1);
            let text: String = last.iter().map(|f| format!("{:032x}\n", f)).collect();
            std::fs::write(&args[3], text).unwrap();
        }
        "replay" => {
            let s = std::fs::read_to_string(&args[2]).expect("read replay file");
            let v: serde_json::Value = serde_json::from_str(&s).expect("parse replay file");
            if let Some(h) = v.get("hang") {
                println!("this file records a call that did not return (CPU-time watchdog): {}", h);
                println!("it is not re-executed automatically; feed the listed history by hand to reproduce");
                std::process::exit(1);
            }
            let ctx = Ctx {
                id: v["check"].as_str().unwrap_or("").to_string(),
                tier: Tier::Quick,
                seed,
                start: Instant::now(),
                known: KnownFindings::load(),
                replay_dir: "/tmp/avtmc-replays".into(),
            };
            engine::install_panic_hook();
            match checks::replay(&ctx, &v) {
                Some(true) => {
                    println!("REPLAY: still fails");
                    std::process::exit(1)
                }
                Some(false) => {
                    println!("REPLAY: passes");
                    std::process::exit(0)
                }
                None => {
                    eprintln!("no replay for {}", ctx.id);
                    std::process::exit(2)
                }
            }
        }
        _ => usage(),
    }
}
