//! `RefTerm` — a boring reference terminal written from the statements of
//! C04–C08 and C16–C18 (per-cell loops, no helpers shared with avt). It
//! consumes abstract commands and is a *partial* specification: components the
//! statements leave open are adopted from the observation of the real
//! terminal instead of being compared (see DESIGN.md §3.2).

use crate::obs::*;
use crate::ops::{Cmd, P};
use std::collections::BTreeSet;

#[derive(Clone, Debug, PartialEq, Eq)]
pub struct RRow {
    pub cells: Vec<CellObs>,
    pub wrap: bool,
}

impl RRow {
    fn blank(cols: usize, pen: PenObs) -> RRow {
        RRow {
            cells: vec![(' ', pen); cols],
            wrap: false,
        }
    }
}

#[derive(Clone, Debug, PartialEq, Eq)]
pub struct Saved {
    pub col: usize,
    pub row: usize,
    pub pen: PenObs,
    pub origin: bool,
    pub awm: bool,
    /// a resize happened since the save: only "inside the screen" is known
    pub any_pos: bool,
}

impl Saved {
    fn power_on() -> Saved {
        Saved {
            col: 0,
            row: 0,
            pen: PenObs(0),
            origin: false,
            awm: true,
            any_pos: false,
        }
    }
}

#[derive(Clone, Debug)]
pub struct Parked {
    grid: Vec<RRow>,
    scrollback: Vec<RRow>,
    /// the terminal was resized while this screen was parked
    stale: bool,
}

#[derive(Clone, Debug)]
pub struct RefTerm {
    pub cols: usize,
    pub rows: usize,
    pub grid: Vec<RRow>,
    pub scrollback: Vec<RRow>,
    pub parked: Option<Parked>,
    pub col: usize,
    pub row: usize,
    pub pending: bool,
    pub pen: PenObs,
    pub awm: bool,
    pub irm: bool,
    /// new-line mode: a line feed also returns the carriage (the column after it is adopted)
    pub lnm: bool,
    pub origin: bool,
    pub g: [bool; 2],
    pub active: usize,
    pub top: usize,
    pub bottom: usize,
    pub tabs: BTreeSet<usize>,
    pub saved: Option<Saved>,
    pub other_saved: Option<Saved>,
    pub visible: bool,
    pub ckm: bool,
    /// scrollback limit 0: nothing is retained above the view after a call
    pub no_scrollback: bool,
    /// the real terminal has a scrollback limit > 0: how much it retains is not fixed by the
    /// statements compared here (C13 / C14 own that), only that what it retains is the most
    /// recent part, in order and unchanged - the model drops its oldest rows to the same length
    pub limited: bool,
    /// with `no_scrollback`: the rows the last command scrolled off the primary screen
    pub handed_out: Vec<RRow>,
}

#[derive(Clone, Copy, PartialEq, Eq, Debug)]
enum ColCmp {
    /// reported column must match exactly (incl. the wrap-pending position)
    Exact,
    /// compare min(col, cols-1); adopt the pending flag (reading R7)
    Effective,
    Adopt,
}

#[derive(Clone, Copy, PartialEq, Eq, Debug)]
enum RowCmp {
    Exact,
    Adopt,
}

#[derive(Clone)]
struct Expect {
    col: ColCmp,
    row: RowCmp,
    /// view rows whose wrap mark is adopted
    adopt_marks: Vec<bool>,
    /// adopt marks of scrollback lines from this index on
    adopt_sb_marks_from: usize,
    /// adopt all cells / marks / scrollback (after resize etc.)
    adopt_content: bool,
    /// scrollback lines (by index) whose mark is specified although appended in this step
    sb_spec: Vec<usize>,
    /// the screen before the command (to tell "blanked with the wrong pen" from "not touched")
    pre_grid: Vec<RRow>,
    /// rows a scroll of this step filled with blanks
    vacated: Vec<usize>,
}

#[derive(Debug)]
pub enum StepRes {
    Ok,
    /// the statements do not determine the result: do not explore further
    Unspecified(String),
    Mismatch(String),
}

pub const GFX: [char; 31] = [
    '♦', '▒', '␉', '␌', '␍', '␊', '°', '±', '␤', '␋', '┘', '┐', '┌', '└', '┼', '⎺', '⎻', '─', '⎼',
    '⎽', '├', '┤', '┴', '┬', '│', '≤', '≥', 'π', '≠', '£', '⋅',
];

fn pv(p: &P, default: usize) -> usize {
    match p {
        None | Some(0) => default,
        Some(v) => *v as usize,
    }
}

impl RefTerm {
    pub fn new(cols: usize, rows: usize) -> RefTerm {
        let mut tabs = BTreeSet::new();
        let mut t = 8;
        while t < cols {
            tabs.insert(t);
            t += 8;
        }
        RefTerm {
            cols,
            rows,
            grid: (0..rows).map(|_| RRow::blank(cols, PenObs(0))).collect(),
            scrollback: vec![],
            parked: None,
            col: 0,
            row: 0,
            pending: false,
            pen: PenObs(0),
            awm: true,
            irm: false,
            lnm: false,
            origin: false,
            g: [false, false],
            active: 0,
            top: 0,
            bottom: rows - 1,
            tabs,
            saved: None,
            other_saved: None,
            visible: true,
            ckm: false,
            no_scrollback: false,
            limited: false,
            handed_out: vec![],
        }
    }

    pub fn alt_showing(&self) -> bool {
        self.parked.is_some()
    }

    fn expect(&self) -> Expect {
        Expect {
            col: ColCmp::Effective,
            row: RowCmp::Exact,
            adopt_marks: vec![false; self.rows],
            adopt_sb_marks_from: self.scrollback.len(),
            adopt_content: false,
            sb_spec: vec![],
            pre_grid: vec![],
            vacated: vec![],
        }
    }

    /// reported column
    fn rc(&self) -> usize {
        if self.pending {
            self.cols
        } else {
            self.col
        }
    }

    fn translate(&self, ch: char) -> char {
        if self.g[self.active] && ('\u{60}'..='\u{7e}').contains(&ch) {
            GFX[ch as usize - 0x60]
        } else {
            ch
        }
    }

    // ---- scrolling (C06) ----

    fn scroll_up(&mut self, a: usize, b: usize, n: usize, ex: &mut Expect) {
        let n = n.min(b - a + 1);
        for k in 0..n {
            let gone = self.grid[a + k].clone();
            if a == 0 && !self.alt_showing() {
                self.scrollback.push(gone);
            }
        }
        for r in a..=b {
            if r + n <= b {
                self.grid[r] = self.grid[r + n].clone();
            } else {
                self.grid[r] = RRow::blank(self.cols, self.pen);
                ex.vacated.push(r);
            }
        }
        for r in a.saturating_sub(1)..=b {
            ex.adopt_marks[r] = true;
        }
        // (a row that was vacated is a NEW blank row: it carries no soft-wrap mark)
        for &r in &ex.vacated {
            ex.adopt_marks[r] = false;
        }
        // rows that went into the scrollback were appended unchanged, mark included -
        // except the region's last row: its continuation (the row below the region)
        // stays behind, so whether it keeps its mark is not fixed by the statements
        if a == 0 && !self.alt_showing() {
            let len = self.scrollback.len();
            for k in 0..n {
                let i = len - n + k;
                if a + k != b && !ex.sb_spec.contains(&i) {
                    ex.sb_spec.push(i);
                }
            }
        }
    }

    fn scroll_down(&mut self, a: usize, b: usize, n: usize, ex: &mut Expect) {
        let n = n.min(b - a + 1);
        let mut r = b;
        loop {
            if r >= a + n {
                self.grid[r] = self.grid[r - n].clone();
            } else {
                self.grid[r] = RRow::blank(self.cols, self.pen);
                ex.vacated.push(r);
            }
            if r == a {
                break;
            }
            r -= 1;
        }
        for r in a.saturating_sub(1)..=b {
            ex.adopt_marks[r] = true;
        }
        for &r in &ex.vacated {
            ex.adopt_marks[r] = false;
        }
    }

    fn line_feed(&mut self, ex: &mut Expect) {
        if self.row == self.bottom {
            self.scroll_up(self.top, self.bottom, 1, ex);
        } else if self.row < self.rows - 1 {
            self.row += 1;
        }
    }

    // ---- printing (C04) ----

    fn print_char(&mut self, ch: char, ex: &mut Expect) {
        let ch = self.translate(ch);
        if self.pending && self.awm {
            if self.row == self.bottom {
                self.grid[self.row].wrap = true;
                let left = self.row;
                self.scroll_up(self.top, self.bottom, 1, ex);
                // the row that was left is now one row up and keeps its mark
                if left >= 1 && left - 1 >= self.top {
                    self.grid[left - 1].wrap = true;
                    ex.adopt_marks[left - 1] = false;
                } else if left == 0 && !self.alt_showing() && !self.no_scrollback {
                    // one-row region at the top of the primary screen: the row went
                    // into the scrollback and takes its mark with it
                    if let Some(l) = self.scrollback.last_mut() {
                        l.wrap = true;
                    }
                    ex.sb_spec.push(self.scrollback.len() - 1);
                }
            } else if self.row < self.rows - 1 {
                self.grid[self.row].wrap = true;
                ex.adopt_marks[self.row] = false;
                self.row += 1;
            }
            self.col = 0;
            self.pending = false;
        }
        if self.col == self.cols - 1 {
            self.grid[self.row].cells[self.cols - 1] = (ch, self.pen);
            if self.awm {
                self.pending = true;
            }
        } else {
            if self.irm {
                let cells = &mut self.grid[self.row].cells;
                let mut k = self.cols - 1;
                while k > self.col {
                    cells[k] = cells[k - 1];
                    k -= 1;
                }
            }
            self.grid[self.row].cells[self.col] = (ch, self.pen);
            self.col += 1;
        }
    }

    // ---- save / restore (C17) ----

    fn save_cursor(&mut self) {
        self.saved = Some(Saved {
            col: self.col.min(self.cols - 1),
            row: self.row,
            pen: self.pen,
            origin: self.origin,
            awm: self.awm,
            any_pos: false,
        });
    }

    fn restore_cursor(&mut self, ex: &mut Expect) {
        let s = self.saved.clone().unwrap_or_else(Saved::power_on);
        self.pen = s.pen;
        self.origin = s.origin;
        self.awm = s.awm;
        self.pending = false;
        if s.any_pos {
            ex.col = ColCmp::Adopt;
            ex.row = RowCmp::Adopt;
        } else {
            self.col = s.col;
            self.row = s.row;
            ex.col = ColCmp::Exact;
        }
    }

    // ---- screens (C16) ----

    fn enter_alt(&mut self, ex: &mut Expect) {
        if self.alt_showing() {
            return;
        }
        let grid = std::mem::replace(
            &mut self.grid,
            (0..self.rows).map(|_| RRow::blank(self.cols, self.pen)).collect(),
        );
        let scrollback = std::mem::take(&mut self.scrollback);
        self.parked = Some(Parked {
            grid,
            scrollback,
            stale: false,
        });
        std::mem::swap(&mut self.saved, &mut self.other_saved);
        for m in ex.adopt_marks.iter_mut() {
            *m = true;
        }
        ex.adopt_sb_marks_from = 0;
    }

    fn leave_alt(&mut self, ex: &mut Expect) {
        if let Some(p) = self.parked.take() {
            std::mem::swap(&mut self.saved, &mut self.other_saved);
            if p.stale {
                ex.adopt_content = true;
                ex.col = ColCmp::Adopt;
                ex.row = RowCmp::Adopt;
            } else {
                self.grid = p.grid;
                self.scrollback = p.scrollback;
                for m in ex.adopt_marks.iter_mut() {
                    *m = false;
                }
                ex.adopt_sb_marks_from = self.scrollback.len();
            }
        }
    }

    fn home(&mut self) {
        self.col = 0;
        self.row = if self.origin { self.top } else { 0 };
        self.pending = false;
    }

    // ---- SGR (C08) ----

    fn sgr(&mut self, toks: &[Vec<Option<u32>>]) -> Result<(), String> {
        let mut pen = self.pen;
        let single = |t: &Vec<Option<u32>>| -> Option<u32> {
            if t.len() == 1 {
                Some(t[0].unwrap_or(0))
            } else {
                None
            }
        };
        if toks.is_empty() {
            pen = PenObs(0);
        }
        let mut i = 0;
        while i < toks.len() {
            let t = &toks[i];
            i += 1;
            if t.len() > 1 {
                let v: Vec<u32> = t.iter().map(|x| x.unwrap_or(0)).collect();
                let fg = v[0] == 38;
                if v[0] == 38 || v[0] == 48 {
                    let color = match v.len() {
                        3 if v[1] == 5 => {
                            if v[2] > 255 {
                                return Err("indexed colour > 255".into());
                            }
                            Some(Col::Idx(v[2] as u8))
                        }
                        5 if v[1] == 2 => Some((v[2], v[3], v[4])).map(rgb).transpose()?,
                        6 if v[1] == 2 => Some((v[3], v[4], v[5])).map(rgb).transpose()?,
                        // a selector other than 2 / 5: not a colour form, an unknown parameter
                        _ if v[1] != 2 && v[1] != 5 => continue,
                        _ => return Err(format!("malformed colour form {:?}", v)),
                    };
                    if fg {
                        pen = pen.with_fg(color);
                    } else {
                        pen = pen.with_bg(color);
                    }
                }
                // other ':' forms are unknown parameters: skipped
                continue;
            }
            let code = t[0].unwrap_or(0);
            let a = pen.attrs();
            match code {
                0 => pen = PenObs(0),
                1 => pen = pen.with_attrs((a | A_BOLD) & !A_FAINT),
                2 => pen = pen.with_attrs((a | A_FAINT) & !A_BOLD),
                21 | 22 => pen = pen.with_attrs(a & !(A_BOLD | A_FAINT)),
                3 => pen = pen.with_attrs(a | A_ITALIC),
                4 => pen = pen.with_attrs(a | A_UNDERLINE),
                5 => pen = pen.with_attrs(a | A_BLINK),
                7 => pen = pen.with_attrs(a | A_INVERSE),
                9 => pen = pen.with_attrs(a | A_STRIKE),
                23 => pen = pen.with_attrs(a & !A_ITALIC),
                24 => pen = pen.with_attrs(a & !A_UNDERLINE),
                25 => pen = pen.with_attrs(a & !A_BLINK),
                27 => pen = pen.with_attrs(a & !A_INVERSE),
                29 => pen = pen.with_attrs(a & !A_STRIKE),
                30..=37 => pen = pen.with_fg(Some(Col::Idx((code - 30) as u8))),
                90..=97 => pen = pen.with_fg(Some(Col::Idx((code - 90 + 8) as u8))),
                39 => pen = pen.with_fg(None),
                40..=47 => pen = pen.with_bg(Some(Col::Idx((code - 40) as u8))),
                100..=107 => pen = pen.with_bg(Some(Col::Idx((code - 100 + 8) as u8))),
                49 => pen = pen.with_bg(None),
                38 | 48 => {
                    // ';' forms: 5;n or 2;r;g;b in the following parameters
                    let sel = toks.get(i).and_then(single);
                    let color = match sel {
                        Some(5) => {
                            let n = toks.get(i + 1).and_then(single).ok_or("38;5 without index")?;
                            if n > 255 {
                                return Err("indexed colour > 255".into());
                            }
                            i += 2;
                            Col::Idx(n as u8)
                        }
                        Some(2) => {
                            let r = toks.get(i + 1).and_then(single).ok_or("38;2 truncated")?;
                            let g = toks.get(i + 2).and_then(single).ok_or("38;2 truncated")?;
                            let b = toks.get(i + 3).and_then(single).ok_or("38;2 truncated")?;
                            i += 4;
                            rgb((r, g, b))?
                        }
                        // a lone 38/48 (not followed by the 2 or 5 selector) is an unknown
                        // parameter: skipped without disturbing its neighbours
                        Some(_) => continue,
                        None if toks.get(i).is_none() => continue,
                        None => continue, // followed by a ':' form: that one is handled on its own
                    };
                    if code == 38 {
                        pen = pen.with_fg(Some(color));
                    } else {
                        pen = pen.with_bg(Some(color));
                    }
                }
                _ => {} // unknown: skipped
            }
        }
        self.pen = pen;
        Ok(())
    }

    // ---- one command ----

    /// Execute a command in the model only (no comparison, nothing adopted). For seed
    /// prefixes made of cursor addressing and text, whose result is compared as a whole
    /// by the ordinary `step` that follows.
    pub fn blind(&mut self, cmd: &Cmd) -> bool {
        let mut ex = self.expect();
        ex.pre_grid = self.grid.clone();
        self.exec(cmd, &mut ex).is_ok()
    }

    pub fn step(&mut self, cmd: &Cmd, real: &Obs) -> StepRes {
        let mut ex = self.expect();
        ex.pre_grid = self.grid.clone();
        if let Err(why) = self.exec(cmd, &mut ex) {
            return StepRes::Unspecified(why);
        }
        if self.no_scrollback {
            // a terminal that keeps no scrollback still hands the rows out to the caller
            // (Changes.scrollback): remember what this call pushed off the primary screen
            self.handed_out = if self.alt_showing() { vec![] } else { std::mem::take(&mut self.scrollback) };
            self.scrollback.clear();
            ex.adopt_sb_marks_from = 0;
            if let Some(p) = self.parked.as_mut() {
                p.scrollback.clear();
            }
        }
        self.compare_and_adopt(real, &ex)
    }

    fn exec(&mut self, cmd: &Cmd, ex: &mut Expect) -> Result<(), String> {
        use Cmd::*;
        let cols = self.cols;
        let rows = self.rows;
        match cmd {
            Text(s) => {
                for ch in s.chars() {
                    self.print_char(ch, ex);
                }
                ex.col = if self.awm { ColCmp::Exact } else { ColCmp::Effective };
            }
            Rep(n) => {
                let rc = self.rc();
                if rc == 0 {
                    return Err("REP with the cursor in column 0".into());
                }
                let ch = self.grid[self.row].cells[rc - 1].0;
                for _ in 0..pv(n, 1) {
                    self.print_char(ch, ex);
                }
                ex.col = if self.awm { ColCmp::Exact } else { ColCmp::Effective };
            }
            So => {
                self.active = 1;
                ex.col = ColCmp::Exact;
            }
            Si => {
                self.active = 0;
                ex.col = ColCmp::Exact;
            }
            Desig(slot, drawing) => {
                self.g[*slot as usize] = *drawing;
                ex.col = ColCmp::Exact;
            }
            Bs => {
                self.col = self.col.saturating_sub(1);
                self.pending = false;
                ex.col = ColCmp::Exact;
            }
            Cr => {
                self.col = 0;
                self.pending = false;
                ex.col = ColCmp::Exact;
            }
            Lf => {
                self.line_feed(ex);
                if self.lnm {
                    // which of LF/VT/FF/IND also return the carriage is not fixed by the
                    // properties; that the line feed itself happens is
                    ex.col = ColCmp::Adopt;
                }
            }
            Nel => {
                self.line_feed(ex);
                self.col = 0;
                self.pending = false;
                ex.col = ColCmp::Exact;
            }
            Ri => {
                if self.row == self.top {
                    self.scroll_down(self.top, self.bottom, 1, ex);
                } else if self.row > 0 {
                    self.row -= 1;
                }
            }
            Cuu(n) => {
                let n = pv(n, 1);
                let stop = if self.row < self.top { 0 } else { self.top };
                self.row = self.row.saturating_sub(n).max(stop);
            }
            Cud(n) | Vpr(n) => {
                let n = pv(n, 1);
                let stop = if self.row > self.bottom { rows - 1 } else { self.bottom };
                self.row = (self.row + n).min(stop);
            }
            Cnl(n) => {
                let n = pv(n, 1);
                let stop = if self.row > self.bottom { rows - 1 } else { self.bottom };
                self.row = (self.row + n).min(stop);
                self.col = 0;
                self.pending = false;
                ex.col = ColCmp::Exact;
            }
            Cpl(n) => {
                let n = pv(n, 1);
                let stop = if self.row < self.top { 0 } else { self.top };
                self.row = self.row.saturating_sub(n).max(stop);
                self.col = 0;
                self.pending = false;
                ex.col = ColCmp::Exact;
            }
            Cuf(n) => {
                // "stop at the screen edge": the last real column, wrap-pending left
                self.col = (self.col + pv(n, 1)).min(cols - 1);
                self.pending = false;
                ex.col = ColCmp::Exact;
            }
            Cub(n) => {
                self.col = self.col.saturating_sub(pv(n, 1));
                self.pending = false;
                ex.col = ColCmp::Exact;
            }
            Cha(c) => {
                self.col = (pv(c, 1) - 1).min(cols - 1);
                self.pending = false;
                ex.col = ColCmp::Exact;
            }
            Cup(r, c) => {
                self.col = (pv(c, 1) - 1).min(cols - 1);
                self.pending = false;
                ex.col = ColCmp::Exact;
                let r = pv(r, 1) - 1;
                self.row = if self.origin {
                    (self.top + r).min(self.bottom)
                } else {
                    r.min(rows - 1)
                };
            }
            Vpa(r) => {
                let r = pv(r, 1) - 1;
                self.row = if self.origin {
                    (self.top + r).min(self.bottom)
                } else {
                    r.min(rows - 1)
                };
            }
            Ht | Cht(_) => {
                let n = match cmd {
                    Cht(n) => pv(n, 1),
                    _ => 1,
                };
                let target = self.tabs.iter().filter(|&&t| t > self.col).nth(n - 1).copied();
                // "... or to the last column when there is none": a real column
                self.col = target.unwrap_or(cols - 1).min(cols - 1);
                self.pending = false;
                ex.col = ColCmp::Exact;
            }
            Cbt(n) => {
                if self.pending && self.tabs.contains(&(cols - 1)) {
                    return Err("CBT from the wrap-pending column with a stop in the last column".into());
                }
                let n = pv(n, 1);
                let target = self.tabs.iter().rev().filter(|&&t| t < self.col).nth(n - 1).copied();
                self.col = target.unwrap_or(0);
                self.pending = false;
                ex.col = ColCmp::Exact;
            }
            Hts | Ctc(None) | Ctc(Some(0)) => {
                if self.pending {
                    return Err("tab set from the wrap-pending column".into());
                }
                if self.col > 0 {
                    self.tabs.insert(self.col);
                }
                ex.col = ColCmp::Exact;
            }
            Ctc(Some(2)) | Tbc(None) | Tbc(Some(0)) => {
                if self.pending {
                    return Err("tab clear from the wrap-pending column".into());
                }
                self.tabs.remove(&self.col);
                ex.col = ColCmp::Exact;
            }
            Ctc(Some(5)) | Tbc(Some(3)) => {
                self.tabs.clear();
                ex.col = ColCmp::Exact;
            }
            Ctc(_) | Tbc(_) => return Err("unimplemented tab-control parameter".into()),
            Su(n) => self.scroll_up(self.top, self.bottom, pv(n, 1), ex),
            Sd(n) => self.scroll_down(self.top, self.bottom, pv(n, 1), ex),
            Il(n) | Dl(n) => {
                let end = if self.row <= self.bottom { self.bottom } else { rows - 1 };
                if matches!(cmd, Il(_)) {
                    self.scroll_down(self.row, end, pv(n, 1), ex);
                } else {
                    self.scroll_up(self.row, end, pv(n, 1), ex);
                }
                // C06 does not say what IL/DL do to the column (avt keeps it, xterm
                // returns to the left margin): adopted
                ex.col = ColCmp::Adopt;
            }
            Decstbm(t, b) => {
                let t = pv(t, 1);
                let b = pv(b, rows);
                if t >= 1 && t < b && b <= rows {
                    self.top = t - 1;
                    self.bottom = b - 1;
                    self.home();
                    ex.col = ColCmp::Exact;
                } else {
                    ex.col = ColCmp::Adopt;
                    ex.row = RowCmp::Adopt;
                }
            }
            Ed(sel) => {
                let rc = self.rc();
                ex.col = ColCmp::Exact;
                match sel.unwrap_or(0) {
                    0 => {
                        for k in rc..cols {
                            self.grid[self.row].cells[k] = (' ', self.pen);
                        }
                        if rc < cols {
                            self.grid[self.row].wrap = false;
                        } else {
                            ex.adopt_marks[self.row] = true;
                        }
                        for r in self.row + 1..rows {
                            self.grid[r] = RRow::blank(cols, self.pen);
                        }
                    }
                    1 => {
                        for r in 0..self.row {
                            self.grid[r] = RRow::blank(cols, self.pen);
                        }
                        for k in 0..=rc.min(cols - 1) {
                            self.grid[self.row].cells[k] = (' ', self.pen);
                        }
                        // the mark is only open when the whole row (tail included) went
                        if rc >= cols - 1 {
                            ex.adopt_marks[self.row] = true;
                        }
                    }
                    2 => {
                        for r in 0..rows {
                            self.grid[r] = RRow::blank(cols, self.pen);
                        }
                    }
                    _ => return Err("ED selector outside 0..2".into()),
                }
            }
            El(sel) => {
                let rc = self.rc();
                ex.col = ColCmp::Exact;
                match sel.unwrap_or(0) {
                    0 => {
                        for k in rc..cols {
                            self.grid[self.row].cells[k] = (' ', self.pen);
                        }
                        if rc < cols {
                            self.grid[self.row].wrap = false;
                        } else {
                            ex.adopt_marks[self.row] = true;
                        }
                    }
                    1 => {
                        for k in 0..=rc.min(cols - 1) {
                            self.grid[self.row].cells[k] = (' ', self.pen);
                        }
                        if rc >= cols - 1 {
                            ex.adopt_marks[self.row] = true;
                        }
                    }
                    2 => {
                        self.grid[self.row] = RRow::blank(cols, self.pen);
                    }
                    _ => return Err("EL selector outside 0..2".into()),
                }
            }
            Ech(n) => {
                let rc = self.rc();
                ex.col = ColCmp::Exact;
                let end = (rc + pv(n, 1)).min(cols);
                for k in rc..end {
                    self.grid[self.row].cells[k] = (' ', self.pen);
                }
                if rc < cols {
                    if end == cols {
                        self.grid[self.row].wrap = false;
                    }
                } else {
                    ex.adopt_marks[self.row] = true;
                }
            }
            Ich(n) => {
                let rc = self.rc();
                ex.col = ColCmp::Exact;
                if rc < cols {
                    let n = pv(n, 1).min(cols - rc);
                    let cells = &mut self.grid[self.row].cells;
                    let mut k = cols - 1;
                    loop {
                        if k >= rc + n {
                            cells[k] = cells[k - n];
                        } else {
                            cells[k] = (' ', self.pen);
                        }
                        if k == rc {
                            break;
                        }
                        k -= 1;
                    }
                }
                // "modify exactly the cells of their extent": the mark stays
            }
            Dch(n) => {
                self.pending = false;
                ex.col = ColCmp::Exact;
                let c0 = self.col;
                let n = pv(n, 1).min(cols - c0);
                let cells = &mut self.grid[self.row].cells;
                for k in c0..cols {
                    if k + n < cols {
                        cells[k] = cells[k + n];
                    } else {
                        cells[k] = (' ', self.pen);
                    }
                }
                self.grid[self.row].wrap = false;
            }
            Decaln => {
                for r in 0..rows {
                    for k in 0..cols {
                        self.grid[r].cells[k] = ('E', PenObs(0));
                    }
                    // only cells are modified: nothing is erased or deleted, marks stay
                }
                ex.col = ColCmp::Exact;
            }
            Sgr(toks) => {
                self.sgr(toks)?;
                ex.col = ColCmp::Exact;
            }
            Sm(v) | Rm(v) => {
                let on = matches!(cmd, Sm(_));
                for m in v {
                    match m {
                        4 => self.irm = on,
                        20 => self.lnm = on,
                        _ => {}
                    }
                }
                ex.col = ColCmp::Exact;
            }
            DecSet(v) => {
                ex.col = ColCmp::Exact;
                for m in v {
                    match m {
                        1 => self.ckm = true,
                        6 => {
                            self.origin = true;
                            self.home();
                            // "toggling origin mode homes the cursor" - exactly, whatever an
                            // earlier entry of the same list left to be adopted
                            ex.col = ColCmp::Exact;
                            ex.row = RowCmp::Exact;
                        }
                        7 => self.awm = true,
                        25 => self.visible = true,
                        47 | 1047 => self.enter_alt(ex),
                        1048 => self.save_cursor(),
                        1049 => {
                            self.save_cursor();
                            self.enter_alt(ex);
                        }
                        _ => {}
                    }
                }
            }
            DecRst(v) => {
                ex.col = ColCmp::Exact;
                for m in v {
                    match m {
                        1 => self.ckm = false,
                        6 => {
                            self.origin = false;
                            self.home();
                            ex.col = ColCmp::Exact;
                            ex.row = RowCmp::Exact;
                        }
                        7 => self.awm = false,
                        25 => self.visible = false,
                        47 | 1047 => self.leave_alt(ex),
                        1048 => self.restore_cursor(ex),
                        1049 => {
                            self.leave_alt(ex);
                            let stale = ex.adopt_content;
                            self.restore_cursor(ex);
                            if stale {
                                // position is re-derived by the reflow: only "inside the screen"
                                ex.col = ColCmp::Adopt;
                                ex.row = RowCmp::Adopt;
                            }
                        }
                        _ => {}
                    }
                }
            }
            Decsc | Scosc => {
                self.save_cursor();
                ex.col = ColCmp::Exact;
            }
            Decrc | Scorc => self.restore_cursor(ex),
            Decstr => {
                self.visible = true;
                self.top = 0;
                self.bottom = rows - 1;
                self.irm = false;
                self.origin = false;
                self.pen = PenObs(0);
                self.g = [false, false];
                self.active = 0;
                self.saved = None;
                ex.col = ColCmp::Exact;
            }
            Ris => {
                let ns = self.no_scrollback;
                *self = RefTerm::new(cols, rows);
                self.no_scrollback = ns;
                ex.col = ColCmp::Exact;
                ex.adopt_sb_marks_from = 0;
            }
            Resize(c, r) => {
                let (c, r) = (*c, *r);
                if r != rows {
                    self.top = 0;
                    self.bottom = r - 1;
                }
                if c < cols {
                    self.tabs = self.tabs.iter().copied().filter(|&t| t < c).collect();
                } else if c > cols {
                    let mut t = ((cols + 7) / 8) * 8;
                    if t == 0 {
                        t = 8;
                    }
                    while t < c {
                        if t >= cols {
                            self.tabs.insert(t);
                        }
                        t += 8;
                    }
                }
                if (c, r) != (cols, rows) {
                    if let Some(s) = self.saved.as_mut() {
                        s.any_pos = true;
                    }
                    if let Some(s) = self.other_saved.as_mut() {
                        s.any_pos = true;
                    }
                    if let Some(p) = self.parked.as_mut() {
                        p.stale = true;
                    }
                }
                self.cols = c;
                self.rows = r;
                ex.adopt_marks = vec![true; r];
                ex.adopt_content = true;
                ex.col = ColCmp::Adopt;
                ex.row = RowCmp::Adopt;
            }
            Seq(v) => {
                // only reached for sequences whose parts need no adoption in between
                for c in v {
                    self.exec(c, ex)?;
                }
            }
            Inert(_) => {
                ex.col = ColCmp::Exact;
            }
            Raw(_) => return Err("raw input is not modelled".into()),
        }
        Ok(())
    }

    fn compare_and_adopt(&mut self, real: &Obs, ex: &Expect) -> StepRes {
        if real.size != (self.cols, self.rows) {
            return StepRes::Mismatch(format!(
                "size() = {:?}, expected {:?}",
                real.size,
                (self.cols, self.rows)
            ));
        }
        let n = real.rows.len();
        if n < self.rows {
            return StepRes::Mismatch("fewer lines than rows".into());
        }
        let sb_len = n - self.rows;
        let mut shifted: Option<Expect> = None;
        if self.limited && !ex.adopt_content && sb_len < self.scrollback.len() {
            let k = self.scrollback.len() - sb_len;
            self.scrollback.drain(..k);
            let mut e2 = ex.clone();
            e2.adopt_sb_marks_from = e2.adopt_sb_marks_from.saturating_sub(k);
            e2.sb_spec = e2.sb_spec.iter().filter_map(|&i| i.checked_sub(k)).collect();
            shifted = Some(e2);
        }
        let ex: &Expect = shifted.as_ref().unwrap_or(ex);
        let (real_sb, real_view) = real.rows.split_at(sb_len);
        if ex.adopt_content {
            self.grid = real_view
                .iter()
                .map(|r| RRow {
                    cells: r.cells.clone(),
                    wrap: r.wrapped,
                })
                .collect();
            self.scrollback = real_sb
                .iter()
                .map(|r| RRow {
                    cells: r.cells.clone(),
                    wrap: r.wrapped,
                })
                .collect();
        } else {
            // (the alternate screen keeps none: the model never appends there, so any
            // growth shows as a length mismatch at the operation that caused it)
            if sb_len != self.scrollback.len() {
                return StepRes::Mismatch(format!(
                    "scrollback has {} lines, expected {}{} (expected tail {:?})",
                    sb_len,
                    self.scrollback.len(),
                    if self.alt_showing() { " - the alternate screen keeps none" } else { "" },
                    self.scrollback.last().map(|r| r.cells.iter().map(|c| c.0).collect::<String>())
                ));
            }
            for (i, (m, r)) in self.scrollback.iter_mut().zip(real_sb.iter()).enumerate() {
                if m.cells != r.cells {
                    return StepRes::Mismatch(format!(
                        "scrollback line {}: {:?}, expected {:?}",
                        i,
                        r,
                        RowObs {
                            cells: m.cells.clone(),
                            wrapped: m.wrap
                        }
                    ));
                }
                if i >= ex.adopt_sb_marks_from && !ex.sb_spec.contains(&i) {
                    m.wrap = r.wrapped;
                } else if m.wrap != r.wrapped {
                    return StepRes::Mismatch(format!(
                        "scrollback line {} soft-wrap mark {} expected {}",
                        i, r.wrapped, m.wrap
                    ));
                }
            }
            let cur_pen = self.pen;
            for (i, (m, r)) in self.grid.iter_mut().zip(real_view.iter()).enumerate() {
                if m.cells != r.cells {
                    // a blank that should carry the current pen but carries another one
                    // is a statement about the pen (C08), not about the extent
                    if let Some(k) = (0..m.cells.len().min(r.cells.len())).find(|&k| m.cells[k] != r.cells[k]) {
                        let (e, g) = (m.cells[k], r.cells[k]);
                        let untouched = ex.pre_grid.get(i).and_then(|r| r.cells.get(k)).map(|p| *p == g).unwrap_or(false);
                        if e.0 == ' ' && g.0 == ' ' && e.1 == cur_pen && (!untouched || ex.vacated.contains(&i)) {
                            return StepRes::Mismatch(format!(
                                "row {} col {}: blank cell has pen {:?}, expected the current pen {:?} (row {:?})",
                                i, k, g.1, e.1, r
                            ));
                        }
                    }
                    let pen_only = m.cells.len() == r.cells.len()
                        && m.cells.iter().zip(r.cells.iter()).all(|(a, b)| a.0 == b.0)
                        && (0..m.cells.len()).any(|k| {
                            // expected in the current pen, rewritten, and reporting another pen
                            // (a cell written in the right pen that should not have been written
                            // at all is a matter of extent, not of the pen)
                            m.cells[k] != r.cells[k]
                                && m.cells[k].1 == cur_pen
                                && r.cells[k].1 != cur_pen
                                && ex.pre_grid.get(i).and_then(|p| p.cells.get(k)).map(|p| *p != r.cells[k]).unwrap_or(true)
                        });
                    return StepRes::Mismatch(format!(
                        "row {}{}: {:?}, expected {:?}",
                        i,
                        if pen_only { " [pen-only]" } else { "" },
                        r,
                        RowObs {
                            cells: m.cells.clone(),
                            wrapped: m.wrap
                        }
                    ));
                }
                if ex.adopt_marks[i] {
                    m.wrap = r.wrapped;
                } else if m.wrap != r.wrapped {
                    return StepRes::Mismatch(format!(
                        "row {} soft-wrap mark is {}, expected {} (row {:?})",
                        i, r.wrapped, m.wrap, r
                    ));
                }
            }
        }
        // cursor
        let (rcol, rrow, rvis) = real.cursor;
        match ex.row {
            RowCmp::Exact => {
                if rrow != self.row {
                    return StepRes::Mismatch(format!("cursor row {}, expected {}", rrow, self.row));
                }
            }
            RowCmp::Adopt => {
                if rrow >= self.rows {
                    return StepRes::Mismatch(format!("cursor row {} outside the screen", rrow));
                }
                self.row = rrow;
            }
        }
        if rcol > self.cols {
            return StepRes::Mismatch(format!("cursor col {} > cols", rcol));
        }
        match ex.col {
            ColCmp::Exact => {
                if rcol != self.rc() {
                    return StepRes::Mismatch(format!(
                        "cursor col {}, expected {} (row {})",
                        rcol,
                        self.rc(),
                        rrow
                    ));
                }
            }
            ColCmp::Effective => {
                if rcol.min(self.cols - 1) != self.col.min(self.cols - 1) {
                    return StepRes::Mismatch(format!(
                        "cursor col {}, expected {} (row {})",
                        rcol, self.col, rrow
                    ));
                }
                self.pending = rcol == self.cols;
                self.col = rcol.min(self.cols - 1);
            }
            ColCmp::Adopt => {
                self.pending = rcol == self.cols;
                self.col = rcol.min(self.cols - 1);
            }
        }
        if rvis != self.visible {
            return StepRes::Mismatch(format!("cursor visible {}, expected {}", rvis, self.visible));
        }
        if real.ckm != self.ckm {
            return StepRes::Mismatch(format!("cursor-key mode {}, expected {}", real.ckm, self.ckm));
        }
        StepRes::Ok
    }
}

impl RefTerm {
    /// Re-synchronise the model with the implementation after a divergence that
    /// belongs to another property, so that exploration can continue and later
    /// commands are judged from the state the implementation is really in.
    /// Returns false when the state cannot be represented (screens disagree).
    pub fn resync(&mut self, real: &Obs, h: &avt::VerifState) -> bool {
        if h.alternate_active != self.alt_showing() || real.size != (self.cols, self.rows) {
            return false;
        }
        let n = real.rows.len();
        if n < self.rows {
            return false;
        }
        // an implementation state that breaks the basic invariants cannot be continued from
        if h.top_margin > h.bottom_margin || h.bottom_margin >= self.rows || real.cursor.1 >= self.rows || real.cursor.0 > self.cols {
            return false;
        }
        if real.rows[n - self.rows..].iter().any(|r| r.cells.len() != self.cols) {
            return false;
        }
        let (sb, view) = real.rows.split_at(n - self.rows);
        let conv = |r: &RowObs| RRow { cells: r.cells.clone(), wrap: r.wrapped };
        self.grid = view.iter().map(conv).collect();
        self.scrollback = sb.iter().map(conv).collect();
        self.col = real.cursor.0.min(self.cols - 1);
        self.pending = real.cursor.0 == self.cols;
        self.row = real.cursor.1.min(self.rows - 1);
        self.visible = real.cursor.2;
        self.ckm = real.ckm;
        self.pen = PenObs::of(&h.pen);
        self.irm = h.insert_mode;
        self.lnm = h.new_line_mode;
        self.origin = h.origin_mode;
        self.awm = h.auto_wrap_mode;
        self.g = h.charsets_drawing;
        self.active = h.active_charset;
        self.top = h.top_margin;
        self.bottom = h.bottom_margin;
        // the tab stops are NOT adopted: where they should be is fixed by C18's rules, and
        // the movement commands (C05) are judged against where the stops should be
        let conv_s = |c: &avt::VerifSavedCtx, old: &Option<Saved>| {
            Some(Saved {
                col: c.cursor_col,
                row: c.cursor_row,
                pen: PenObs::of(&c.pen),
                origin: c.origin_mode,
                awm: c.auto_wrap_mode,
                any_pos: old.as_ref().map(|o| o.any_pos).unwrap_or(false),
            })
        };
        self.saved = conv_s(&h.saved_ctx, &self.saved);
        self.other_saved = conv_s(&h.other_saved_ctx, &self.other_saved);
        true
    }

    /// Compare the model's hidden components with the implementation's
    /// (read through the `verif` feature hook). Returns the first difference.
    pub fn compare_hidden(&self, h: &avt::VerifState) -> Result<(), String> {
        if h.alternate_active != self.alt_showing() {
            return Err(format!("alternate screen active: {}, expected {}", h.alternate_active, self.alt_showing()));
        }
        let pen = PenObs::of(&h.pen);
        if pen != self.pen {
            return Err(format!("pen {:?}, expected {:?}", pen, self.pen));
        }
        if h.new_line_mode != self.lnm {
            return Err(format!("new-line mode {}, expected {}", h.new_line_mode, self.lnm));
        }
        if h.insert_mode != self.irm {
            return Err(format!("insert mode {}, expected {}", h.insert_mode, self.irm));
        }
        if h.origin_mode != self.origin {
            return Err(format!("origin mode {}, expected {}", h.origin_mode, self.origin));
        }
        if h.auto_wrap_mode != self.awm {
            return Err(format!("auto-wrap mode {}, expected {}", h.auto_wrap_mode, self.awm));
        }
        if h.charsets_drawing != self.g || h.active_charset != self.active {
            return Err(format!(
                "charsets {:?} active {}, expected {:?} active {}",
                h.charsets_drawing, h.active_charset, self.g, self.active
            ));
        }
        if (h.top_margin, h.bottom_margin) != (self.top, self.bottom) {
            return Err(format!(
                "margins {}..{}, expected {}..{}",
                h.top_margin, h.bottom_margin, self.top, self.bottom
            ));
        }
        if h.pending_wrap != self.pending {
            return Err(format!("pending-wrap flag {}, but the cursor column says {}", h.pending_wrap, self.pending));
        }
        let want: Vec<usize> = self.tabs.iter().copied().collect();
        // the ORDER in which the implementation keeps its stops is representation
        let mut got = h.tabs.clone();
        got.sort();
        if got != want {
            return Err(format!("tab stops {:?}, expected {:?}", h.tabs, want));
        }
        for (name, real, model) in [
            ("saved context", &h.saved_ctx, &self.saved),
            ("saved context of the other screen", &h.other_saved_ctx, &self.other_saved),
        ] {
            let m = model.clone().unwrap_or_else(Saved::power_on);
            let rp = PenObs::of(&real.pen);
            if rp != m.pen || real.origin_mode != m.origin || real.auto_wrap_mode != m.awm {
                return Err(format!(
                    "{}: pen {:?} origin {} awm {}, expected pen {:?} origin {} awm {}",
                    name, rp, real.origin_mode, real.auto_wrap_mode, m.pen, m.origin, m.awm
                ));
            }
            if !m.any_pos && (real.cursor_col, real.cursor_row) != (m.col, m.row) {
                return Err(format!(
                    "{}: position ({},{}), expected ({},{})",
                    name, real.cursor_col, real.cursor_row, m.col, m.row
                ));
            }
        }
        Ok(())
    }
}

fn rgb((r, g, b): (u32, u32, u32)) -> Result<Col, String> {
    if r > 255 || g > 255 || b > 255 {
        return Err("RGB component > 255".into());
    }
    Ok(Col::Rgb(r as u8, g as u8, b as u8))
}
