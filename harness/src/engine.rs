//! Level-synchronous parallel BFS over operation histories of the real
//! implementation (explicit-state model checking, states rebuilt by replay).

use crate::ops::{Cfg, Op};
use rayon::prelude::*;
use std::cell::RefCell;
use std::collections::{BTreeMap, HashSet};
use std::hash::{BuildHasherDefault, Hasher};
use std::panic::{catch_unwind, AssertUnwindSafe};
use std::sync::atomic::{AtomicBool, AtomicUsize, Ordering};
use std::sync::{Arc, Mutex, OnceLock};
use std::time::{Duration, Instant};

#[derive(Clone, Debug)]
pub struct Violation {
    pub property: String,
    pub oracle: String,
    pub detail: String,
}

#[derive(Default)]
pub struct Out {
    pub violations: Vec<Violation>,
    pub counters: BTreeMap<&'static str, u64>,
    /// do not expand the state reached by this transition
    pub prune: bool,
    /// (finding id, description) of known-finding class members that failed
    pub known: Vec<(String, String)>,
    /// hash of the observation after the transition (vacuity guard)
    pub obs_hash: Option<u64>,
    pub notes: Vec<String>,
}

impl Out {
    pub fn count(&mut self, k: &'static str) {
        *self.counters.entry(k).or_insert(0) += 1;
    }
    pub fn add(&mut self, k: &'static str, n: u64) {
        *self.counters.entry(k).or_insert(0) += n;
    }
    pub fn violate(&mut self, property: &str, oracle: &str, detail: String) {
        self.violations.push(Violation {
            property: property.to_string(),
            oracle: oracle.to_string(),
            detail,
        });
    }
    pub fn known(&mut self, id: &str, detail: String) {
        self.known.push((id.to_string(), detail));
    }
    fn merge(&mut self, o: Out) {
        self.violations.extend(o.violations);
        for (k, v) in o.counters {
            *self.counters.entry(k).or_insert(0) += v;
        }
        self.known.extend(o.known);
        self.notes.extend(o.notes);
    }
}

/// A transition system built on the real implementation.
pub trait System: Sync {
    type St;
    fn init(&self, cfg: &Cfg) -> Self::St;
    /// Apply `op`. With `out = Some`, judge the transition.
    fn step(&self, cfg: &Cfg, st: &mut Self::St, op: &Op, out: Option<&mut Out>);
    fn key(&self, st: &Self::St) -> u128;
    /// Called once for every distinct state. `rebuild` gives fresh copies of
    /// the same state (by replay).
    fn on_state(
        &self,
        _cfg: &Cfg,
        _hist: &[&Op],
        _st: &mut Self::St,
        _rebuild: &dyn Fn() -> Self::St,
        _out: &mut Out,
    ) {
    }
    /// false when `on_state` does nothing: the explorer then does not rebuild the
    /// state just to call it (matters on large screens, where a replay is expensive)
    fn has_state_hook(&self) -> bool {
        true
    }
}

#[derive(Clone, Debug)]
pub struct Found {
    pub v: Violation,
    pub cfg: Cfg,
    /// op indices; for a transition violation the last one is the judged op
    pub hist: Vec<u16>,
    pub at_state: bool,
}

#[derive(Clone, Copy, Debug)]
pub struct Caps {
    pub deadline: Option<Instant>,
    pub max_states: usize,
}

impl Caps {
    pub fn seconds(s: f64) -> Caps {
        Caps {
            deadline: Some(Instant::now() + Duration::from_secs_f64(s)),
            max_states: usize::MAX,
        }
    }
}

#[derive(Debug, Default)]
pub struct BfsOut {
    pub states: u64,
    pub transitions: u64,
    pub depth_completed: usize,
    pub depth_requested: usize,
    pub capped: Option<String>,
    pub fixpoint: bool,
    pub pruned: u64,
    pub counters: BTreeMap<&'static str, u64>,
    pub violations: Vec<Found>,
    pub violation_count: u64,
    pub known: BTreeMap<String, (u64, String)>,
    pub notes: Vec<String>,
    pub distinct_obs: usize,
    pub level_sizes: Vec<usize>,
    pub samples: Vec<String>,
    /// histories of every distinct state (only if requested)
    pub all_states: Vec<Vec<u16>>,
    pub panics: u64,
}

#[derive(Default)]
pub struct IdHasher(u64);
impl Hasher for IdHasher {
    fn finish(&self) -> u64 {
        self.0
    }
    fn write(&mut self, b: &[u8]) {
        // keys are u128 fingerprints, already uniformly distributed
        let mut x = [0u8; 8];
        let n = b.len().min(8);
        x[..n].copy_from_slice(&b[..n]);
        self.0 ^= u64::from_le_bytes(x);
    }
    fn write_u128(&mut self, i: u128) {
        self.0 = (i as u64) ^ ((i >> 64) as u64).rotate_left(17);
    }
    fn write_u64(&mut self, i: u64) {
        self.0 = i;
    }
}
pub type KeySet = HashSet<u128, BuildHasherDefault<IdHasher>>;

// ---------------- panic capture ----------------

thread_local! {
    static LAST_PANIC: RefCell<String> = RefCell::new(String::new());
}
/// (message, source file) of the most recent panic on any thread - for the
/// backstop in `main` that tells a panic in the library from one in the harness
pub static LAST_PANIC_ANY: Mutex<(String, String)> = Mutex::new((String::new(), String::new()));

pub fn install_panic_hook() {
    static ONCE: OnceLock<()> = OnceLock::new();
    ONCE.get_or_init(|| {
        std::panic::set_hook(Box::new(|info| {
            let msg = if let Some(s) = info.payload().downcast_ref::<&str>() {
                s.to_string()
            } else if let Some(s) = info.payload().downcast_ref::<String>() {
                s.clone()
            } else {
                "panic".to_string()
            };
            let loc = info
                .location()
                .map(|l| format!("{}:{}", l.file(), l.line()))
                .unwrap_or_default();
            if let Ok(mut g) = LAST_PANIC_ANY.lock() {
                *g = (format!("{} at {}", msg, loc), info.location().map(|l| l.file().to_string()).unwrap_or_default());
            }
            LAST_PANIC.with(|p| *p.borrow_mut() = format!("{} at {}", msg, loc));
        }));
    });
}

pub fn last_panic() -> String {
    LAST_PANIC.with(|p| p.borrow().clone())
}

/// A panic message ("... at file:line") whose location is in the machinery's own source
/// (relative path) rather than in the library (absolute path) or the standard library
/// called by it: a defect of the machinery, never a verdict about the library.
pub fn in_harness(msg: &str) -> bool {
    match msg.rfind(" at ") {
        Some(i) => {
            let loc = &msg[i + 4..];
            !loc.is_empty() && !std::path::Path::new(loc.split(':').next().unwrap_or("")).is_absolute()
        }
        None => false,
    }
}

/// Run `f`, converting a panic into Err(message).
pub fn guarded<T>(f: impl FnOnce() -> T) -> Result<T, String> {
    match catch_unwind(AssertUnwindSafe(f)) {
        Ok(v) => Ok(v),
        Err(_) => Err(last_panic()),
    }
}

// ---------------- watchdog ----------------
//
// A call that does not return is a violation (C01), but a loaded machine must
// never look like a hang: the limit is on the CPU time the worker thread has
// consumed inside one job (read from /proc/self/task/<tid>/stat), not on wall
// time. Wall time is only used as a very generous backstop.

pub struct Slot {
    started: Mutex<Option<(Instant, String)>>,
    /// what the job is doing right now (the input of the call in progress)
    note: Mutex<String>,
    tid: u64,
}

static SLOTS: Mutex<Vec<Arc<Slot>>> = Mutex::new(Vec::new());
static WATCHDOG_ON: AtomicBool = AtomicBool::new(false);
/// CPU seconds one job may consume
pub static HANG_SECONDS: AtomicUsize = AtomicUsize::new(60);
/// wall-clock backstop (seconds)
pub static HANG_WALL_SECONDS: AtomicUsize = AtomicUsize::new(1800);
/// called with the description of the job that hangs; must not return
static HANG_HANDLER: Mutex<Option<Box<dyn Fn(&str) + Send>>> = Mutex::new(None);

fn my_tid() -> u64 {
    std::fs::read_link("/proc/thread-self")
        .ok()
        .and_then(|p| p.file_name().and_then(|n| n.to_str().and_then(|s| s.parse().ok())))
        .unwrap_or(0)
}

/// CPU time (user + system) of a thread of this process, in seconds
fn thread_cpu_seconds(tid: u64) -> Option<f64> {
    let s = std::fs::read_to_string(format!("/proc/self/task/{}/stat", tid)).ok()?;
    // fields after the closing ')' of the command name: state is field 3
    let rest = &s[s.rfind(')')? + 2..];
    let f: Vec<&str> = rest.split_whitespace().collect();
    let utime: f64 = f.get(11)?.parse().ok()?;
    let stime: f64 = f.get(12)?.parse().ok()?;
    Some((utime + stime) / 100.0)
}

thread_local! {
    static MY_SLOT: Arc<Slot> = {
        let s = Arc::new(Slot { started: Mutex::new(None), note: Mutex::new(String::new()), tid: my_tid() });
        SLOTS.lock().unwrap().push(s.clone());
        s
    };
}

pub fn watch_begin(desc: impl FnOnce() -> String) {
    MY_SLOT.with(|s| *s.started.lock().unwrap() = Some((Instant::now(), desc())));
}
/// record the call about to be made, so that a hang can name it
pub fn watch_note(s: &str) {
    MY_SLOT.with(|sl| {
        let mut g = sl.note.lock().unwrap();
        g.clear();
        g.push_str(s);
    });
}
pub fn watch_end() {
    MY_SLOT.with(|s| *s.started.lock().unwrap() = None);
}

pub fn set_hang_handler(f: Box<dyn Fn(&str) + Send>) {
    *HANG_HANDLER.lock().unwrap() = Some(f);
}

pub fn start_watchdog() {
    if WATCHDOG_ON.swap(true, Ordering::SeqCst) {
        return;
    }
    std::thread::spawn(|| {
        // per slot: (job start, cpu seconds when the job was first seen)
        let mut seen: std::collections::HashMap<u64, (Instant, f64)> = Default::default();
        loop {
            std::thread::sleep(Duration::from_millis(1000));
            let cpu_limit = HANG_SECONDS.load(Ordering::Relaxed) as f64;
            let wall_limit = Duration::from_secs(HANG_WALL_SECONDS.load(Ordering::Relaxed) as u64);
            let slots = SLOTS.lock().unwrap().clone();
            for s in slots {
                let g = s.started.lock().unwrap().clone();
                match g {
                    None => {
                        seen.remove(&s.tid);
                    }
                    Some((t0, desc)) => {
                        let cpu_now = thread_cpu_seconds(s.tid);
                        let e = seen.entry(s.tid).or_insert((t0, cpu_now.unwrap_or(0.0)));
                        if e.0 != t0 {
                            *e = (t0, cpu_now.unwrap_or(0.0));
                        }
                        let cpu_used = cpu_now.map(|c| c - e.1).unwrap_or(0.0);
                        // wall time only counts when the CPU time cannot be read: a process that
                        // was suspended (SIGSTOP, a frozen VM) or starved has not hung
                        if cpu_used > cpu_limit || (cpu_now.is_none() && t0.elapsed() > wall_limit) {
                            let note = s.note.lock().unwrap().clone();
                            let d = format!(
                                "{} then, in progress: {} (cpu {:.0}s, wall {:.0}s in one job)",
                                desc,
                                crate::ops::esc(&note),
                                cpu_used,
                                t0.elapsed().as_secs_f64()
                            );
                            if let Some(h) = HANG_HANDLER.lock().unwrap().as_ref() {
                                h(&d);
                            }
                            println!("HANG (no handler): {}", d);
                            std::process::exit(1);
                        }
                    }
                }
            }
        }
    });
}

// ---------------- BFS ----------------

pub struct Bfs<'a, S: System> {
    pub sys: &'a S,
    pub cfg: Cfg,
    pub alphabet: &'a [Op],
    pub depth: usize,
    pub caps: Caps,
    pub keep_states: bool,
    pub max_violations: usize,
    /// property blamed for panics
    pub property: &'a str,
}

struct HistResult {
    out: Out,
    cands: Vec<(u16, u128, Option<u64>)>,
    viol: Vec<(Violation, Option<u16>)>, // op idx or None = at_state
    transitions: u64,
    pruned: u64,
    panics: u64,
}

fn hist_desc(cfg: &Cfg, alphabet: &[Op], h: &[u16]) -> String {
    let mut s = format!("[{}]", cfg.name());
    for &i in h {
        s.push(' ');
        s.push_str(&alphabet[i as usize].describe());
    }
    s
}

impl<'a, S: System> Bfs<'a, S> {
    pub fn new(sys: &'a S, cfg: Cfg, alphabet: &'a [Op], depth: usize, property: &'a str) -> Self {
        Bfs {
            sys,
            cfg,
            alphabet,
            depth,
            caps: Caps {
                deadline: None,
                max_states: usize::MAX,
            },
            keep_states: false,
            max_violations: 5,
            property,
        }
    }

    fn replay(&self, h: &[u16]) -> S::St {
        let mut st = self.sys.init(&self.cfg);
        for &i in h {
            self.sys
                .step(&self.cfg, &mut st, &self.alphabet[i as usize], None);
        }
        st
    }

    fn process(&self, h: &[u16], expand: bool) -> HistResult {
        let mut r = HistResult {
            out: Out::default(),
            cands: Vec::new(),
            viol: Vec::new(),
            transitions: 0,
            pruned: 0,
            panics: 0,
        };
        watch_begin(|| hist_desc(&self.cfg, self.alphabet, h));
        watch_note("(state hook)");
        // state hook
        if self.sys.has_state_hook() {
            let mut out = Out::default();
            let res = guarded(|| {
                let mut st = self.replay(h);
                let hist_ops: Vec<&Op> = h.iter().map(|&i| &self.alphabet[i as usize]).collect();
                let rebuild = || self.replay(h);
                self.sys
                    .on_state(&self.cfg, &hist_ops, &mut st, &rebuild, &mut out);
            });
            if let Err(msg) = res {
                r.panics += 1;
                out.violate(self.property, if in_harness(&msg) { "harness-panic" } else { "panic-at-state" }, msg);
            }
            for v in out.violations.drain(..) {
                r.viol.push((v, None));
            }
            r.out.merge(out);
        }
        if expand {
            for (i, op) in self.alphabet.iter().enumerate() {
                if !op.enabled_at(h.len()) {
                    continue;
                }
                let mut out = Out::default();
                watch_note(&op.text);
                let res = guarded(|| {
                    let mut st = self.replay(h);
                    self.sys.step(&self.cfg, &mut st, op, Some(&mut out));
                    self.sys.key(&st)
                });
                r.transitions += 1;
                match res {
                    Ok(key) => {
                        if out.prune {
                            r.pruned += 1;
                        } else if out.violations.is_empty() {
                            r.cands.push((i as u16, key, out.obs_hash));
                        }
                    }
                    Err(msg) => {
                        r.panics += 1;
                        out.violate(self.property, if in_harness(&msg) { "harness-panic" } else { "panic" }, msg);
                    }
                }
                for v in out.violations.drain(..) {
                    r.viol.push((v, Some(i as u16)));
                }
                r.out.merge(out);
            }
        }
        watch_end();
        r
    }

    pub fn run(&self) -> BfsOut {
        install_panic_hook();
        start_watchdog();
        let mut res = BfsOut {
            depth_requested: self.depth,
            ..Default::default()
        };
        let mut seen: KeySet = KeySet::default();
        let mut obs_seen: HashSet<u64, BuildHasherDefault<IdHasher>> = Default::default();
        let init_key = {
            let st = self.sys.init(&self.cfg);
            self.sys.key(&st)
        };
        seen.insert(init_key);
        res.states = 1;
        let mut frontier: Vec<Vec<u16>> = vec![vec![]];
        if self.keep_states {
            res.all_states.push(vec![]);
        }
        res.level_sizes.push(1);
        let chunk = 4096usize;
        'levels: for d in 0..=self.depth {
            let expand = d < self.depth;
            let mut next: Vec<Vec<u16>> = Vec::new();
            for (ci, part) in frontier.chunks(chunk).enumerate() {
                if let Some(dl) = self.caps.deadline {
                    if Instant::now() > dl {
                        res.capped = Some(format!(
                            "wall-clock cap hit at level {} chunk {}",
                            d, ci
                        ));
                        break 'levels;
                    }
                }
                if seen.len() > self.caps.max_states {
                    res.capped = Some(format!("state cap hit at level {}", d));
                    break 'levels;
                }
                let results: Vec<HistResult> =
                    part.par_iter().map(|h| self.process(h, expand)).collect();
                for (hi, r) in results.into_iter().enumerate() {
                    let h = &part[hi];
                    res.transitions += r.transitions;
                    res.pruned += r.pruned;
                    res.panics += r.panics;
                    for (k, v) in r.out.counters {
                        *res.counters.entry(k).or_insert(0) += v;
                    }
                    for (id, detail) in r.out.known {
                        let e = res.known.entry(id).or_insert((0, String::new()));
                        if e.0 == 0 {
                            e.1 = format!("{} :: {}", hist_desc(&self.cfg, self.alphabet, h), detail);
                        }
                        e.0 += 1;
                    }
                    for n in r.out.notes {
                        if res.notes.len() < 20 {
                            res.notes.push(n);
                        }
                    }
                    for (v, opi) in r.viol {
                        res.violation_count += 1;
                        if res.violations.len() < self.max_violations {
                            let mut hist = h.clone();
                            if let Some(i) = opi {
                                hist.push(i);
                            }
                            res.violations.push(Found {
                                v,
                                cfg: self.cfg,
                                hist,
                                at_state: opi.is_none(),
                            });
                        }
                    }
                    for (opi, key, oh) in r.cands {
                        if let Some(oh) = oh {
                            obs_seen.insert(oh);
                        }
                        if seen.insert(key) {
                            let mut nh = Vec::with_capacity(h.len() + 1);
                            nh.extend_from_slice(h);
                            nh.push(opi);
                            if self.keep_states {
                                res.all_states.push(nh.clone());
                            }
                            next.push(nh);
                        }
                    }
                }
            }
            if expand {
                res.depth_completed = d + 1;
                res.states = seen.len() as u64;
                res.level_sizes.push(next.len());
                if next.is_empty() {
                    res.fixpoint = true;
                    break;
                }
                if d + 1 == self.depth || res.samples.is_empty() {
                    res.samples = next
                        .iter()
                        .skip(next.len() / 5)
                        .step_by((next.len() / 4).max(1))
                        .take(3)
                        .map(|h| hist_desc(&self.cfg, self.alphabet, h))
                        .collect();
                }
                frontier = next;
            }
        }
        res.states = seen.len() as u64;
        res.distinct_obs = obs_seen.len();
        res
    }

    /// Re-execute one found violation without the explorer; returns the
    /// violations seen (used for the replay-twice guard and `replay`).
    pub fn reexec(&self, f: &Found) -> Vec<Violation> {
        install_panic_hook();
        let mut all = vec![];
        if f.at_state {
            let mut out = Out::default();
            let h = &f.hist;
            let res = guarded(|| {
                let mut st = self.replay(h);
                let hist_ops: Vec<&Op> = h.iter().map(|&i| &self.alphabet[i as usize]).collect();
                let rebuild = || self.replay(h);
                self.sys
                    .on_state(&self.cfg, &hist_ops, &mut st, &rebuild, &mut out);
            });
            if let Err(m) = res {
                out.violate(self.property, if in_harness(&m) { "harness-panic" } else { "panic-at-state" }, m);
            }
            all.extend(out.violations);
        } else {
            let (last, pre) = f.hist.split_last().unwrap();
            let mut out = Out::default();
            let res = guarded(|| {
                let mut st = self.replay(pre);
                self.sys.step(
                    &self.cfg,
                    &mut st,
                    &self.alphabet[*last as usize],
                    Some(&mut out),
                );
            });
            if let Err(m) = res {
                out.violate(self.property, if in_harness(&m) { "harness-panic" } else { "panic" }, m);
            }
            all.extend(out.violations);
        }
        all
    }

    /// Replay a whole history judging every step and the final state.
    pub fn replay_judged(&self, hist: &[u16], verbose: bool) -> Vec<Violation> {
        install_panic_hook();
        let mut all = vec![];
        for n in 1..=hist.len() {
            let f = Found {
                v: Violation {
                    property: String::new(),
                    oracle: String::new(),
                    detail: String::new(),
                },
                cfg: self.cfg,
                hist: hist[..n].to_vec(),
                at_state: false,
            };
            let vs = self.reexec(&f);
            if verbose {
                println!(
                    "  step {}: {} -> {}",
                    n,
                    self.alphabet[hist[n - 1] as usize].describe(),
                    if vs.is_empty() { "ok" } else { "VIOLATED" }
                );
            }
            all.extend(vs);
        }
        let f = Found {
            v: Violation {
                property: String::new(),
                oracle: String::new(),
                detail: String::new(),
            },
            cfg: self.cfg,
            hist: hist.to_vec(),
            at_state: true,
        };
        let vs = self.reexec(&f);
        if verbose {
            println!(
                "  final state hook -> {}",
                if vs.is_empty() { "ok" } else { "VIOLATED" }
            );
        }
        all.extend(vs);
        all
    }
}

/// Merge per-config results into a total.
pub fn merge_outs(total: &mut BfsOut, o: BfsOut) {
    total.states += o.states;
    total.transitions += o.transitions;
    total.pruned += o.pruned;
    total.panics += o.panics;
    total.violation_count += o.violation_count;
    total.distinct_obs += o.distinct_obs;
    total.depth_requested = total.depth_requested.max(o.depth_requested);
    if total.level_sizes.is_empty() {
        total.depth_completed = o.depth_completed;
        total.fixpoint = o.fixpoint;
    } else {
        total.depth_completed = total.depth_completed.min(o.depth_completed);
        total.fixpoint = total.fixpoint && o.fixpoint;
    }
    total.level_sizes.push(o.states as usize);
    if total.capped.is_none() {
        total.capped = o.capped;
    }
    for (k, v) in o.counters {
        *total.counters.entry(k).or_insert(0) += v;
    }
    for (k, (n, w)) in o.known {
        let e = total.known.entry(k).or_insert((0, String::new()));
        if e.0 == 0 {
            e.1 = w;
        }
        e.0 += n;
    }
    total.violations.extend(o.violations);
    for n in o.notes {
        if total.notes.len() < 20 {
            total.notes.push(n);
        }
    }
    if total.samples.len() < 6 {
        total.samples.extend(o.samples.into_iter().take(2));
    }
}
