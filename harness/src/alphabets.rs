//! Operation alphabets (ordered simplest first).

use crate::ops::Cmd::*;
use crate::ops::*;

pub fn crlf() -> Cmd {
    Seq(vec![Cr, Lf])
}

pub fn lfs(n: usize) -> Cmd {
    Seq(vec![Lf; n])
}

pub fn resizes(sizes: &[(usize, usize)]) -> Vec<Op> {
    sizes.iter().map(|&(c, r)| Op::resize(c, r)).collect()
}

/// Truncated sequences (each leaves the parser in a non-ground state).
pub fn truncations() -> Vec<Op> {
    [
        "\x1b",
        "\x1b[",
        "\x1b[3",
        "\x1b[?",
        "\x1b[?1;",
        "\x1b[38:2:",
        "\x1b[5 ",
        "\x1b[!",
        "\x1b(",
        "\x1bP1$",
        "\x1bPq",
        "\x1b]",
        "\x1bX",
        "\u{9b}:",
        "\u{9b}",
    ]
    .iter()
    .map(|s| Op::raw(s))
    .collect()
}

/// One or two representatives of every implemented function, every mode,
/// truncated sequences, and resizes. `rs` = resize targets.
pub fn a_all(cfg: &Cfg, rs: &[(usize, usize)], with_trunc: bool) -> Vec<Op> {
    let rows = cfg.rows as u32;
    let mut v = vec![
        t("a"),
        t("bcd"),
        c(crlf()),
        c(Lf),
        c(Cr),
        c(Bs),
        c(Ht),
        c(Ri),
        c(Nel),
        Op::sp(Lf, Sp { c1: true, alt: 3, zero: false }), // IND, 8-bit form
        c(Cup(None, None)),
        c(Cup(Some(99), Some(99))),
        c(Cup(Some(1), Some(99))),
        c(Cup(Some(2), Some(2))),
        c(Cuu(None)),
        c(Cud(None)),
        c(Cuf(None)),
        c(Cub(None)),
        c(Cha(Some(2))),
        c(Vpa(Some(2))),
        c(Ed(None)),
        c(Ed(Some(1))),
        c(Ed(Some(2))),
        c(El(None)),
        c(El(Some(1))),
        c(El(Some(2))),
        c(Ech(None)),
        c(Ich(None)),
        c(Dch(None)),
        c(Il(None)),
        c(Dl(None)),
        c(Su(None)),
        c(Sd(None)),
        c(Rep(Some(2))),
        c(Decaln),
        c(Decstbm(Some(1), Some(rows.saturating_sub(1).max(1)))),
        c(Decstbm(Some(2), Some(rows))),
        c(Decstbm(None, None)),
        c(DecSet(vec![6])),
        c(DecRst(vec![6])),
        c(DecSet(vec![7])),
        c(DecRst(vec![7])),
        c(Sm(vec![4])),
        c(Rm(vec![4])),
        c(Sm(vec![20])),
        c(DecSet(vec![1])),
        c(DecRst(vec![25])),
        c(Decsc),
        c(Decrc),
        c(DecSet(vec![47])),
        c(DecRst(vec![47])),
        c(DecSet(vec![1047])),
        c(DecSet(vec![1048])),
        c(DecRst(vec![1048])),
        c(DecSet(vec![1049])),
        c(DecRst(vec![1049])),
        c(sgr1(41)),
        c(sgr1(1)),
        c(sgr1(0)),
        c(Hts),
        c(Tbc(Some(3))),
        c(Cbt(None)),
        c(Desig(0, true)),
        c(So),
        c(Si),
        c(Decstr),
        c(Ris),
    ];
    if with_trunc {
        v.extend(truncations());
    }
    v.extend(resizes(rs));
    v
}

/// The resize / alternate-screen sub-alphabet (deep runs of C02).
pub fn a_altresize(_cfg: &Cfg, rs: &[(usize, usize)]) -> Vec<Op> {
    let mut v = vec![
        t("a"),
        t("bcd"),
        c(crlf()),
        c(Cup(None, None)),
        c(Cup(Some(99), Some(99))),
        c(Decsc),
        c(Decrc),
        c(DecSet(vec![47])),
        c(DecRst(vec![47])),
        c(DecSet(vec![1049])),
        c(DecRst(vec![1049])),
        c(DecSet(vec![1047])),
        c(DecRst(vec![1049, 47])), // two screen modes in one sequence
        c(Ed(Some(2))),
        c(Su(None)),
        c(Decstr),
        c(DecRst(vec![7])),
        c(Ri),
    ];
    v.extend(resizes(rs));
    v
}

/// Sequences that real programs send and this terminal does not implement (xterm, VTE, kitty,
/// the Linux console, DEC): each must change NOTHING - alone, and as a pair around an
/// implemented command (a save / push half must not make the restore / pop half do anything).
pub const KNOWN_FOREIGN: &[&str] = &[
    "\x1b[#{", "\x1b[#}", "\x1b[1;2#{", "\x1b[#P", "\x1b[#Q", "\x1b[#p", "\x1b[#q", // XTPUSHSGR / XTPOPSGR / colours
    "\x1b[?7s", "\x1b[?7r", "\x1b[?6s", "\x1b[?6r", "\x1b[?25s", "\x1b[?25r", "\x1b[?1s", "\x1b[?1r", "\x1b[?1049s", "\x1b[?1049r", // XTSAVE / XTRESTORE
    "\x1b[61\"p", "\x1b[62;1\"p", "\x1b[65\"p", // DECSCL
    "\x1b[1\"q", "\x1b[0\"q", "\x1b[2 q", "\x1b[5 q", // DECSCA, DECSCUSR
    "\x1b[?69h", "\x1b[?69l", "\x1b[?2004h", "\x1b[?2004l", "\x1b[?1004h", "\x1b[?12h", "\x1b[?5h", "\x1b[?5l", "\x1b[?3h", "\x1b[?3l", "\x1b[?2026h", "\x1b[?2026l", "\x1b[?45h", "\x1b[?66h",
    "\x1b[>1u", "\x1b[<u", "\x1b[=1;1u", "\x1b[?u", // kitty keyboard
    "\x1b[>4;2m", "\x1b[>4m", "\x1b[?4m", "\x1b[>0c", "\x1b[c", "\x1b[6n", "\x1b[?6n", "\x1b[14t", "\x1b[22;0t", "\x1b[23;0t", "\x1b[0x", "\x1b[?1$p",
    "\x1b*0", "\x1b+0", "\x1b-0", "\x1b.0", "\x1b/0", "\x1b*B", "\x1bN", "\x1bO", "\u{8e}", "\u{8f}", // G2 / G3, single shifts
    "\x1b%G", "\x1b%@", "\x1b=", "\x1b>", "\x1bl", "\x1bm", "\x1bn", "\x1bo", "\x1b|", "\x1b}", "\x1b~", "\x1b 6", "\x1b F", "\x1b G", "\x1b#3", "\x1b#6",
    "\x1b]P0123456x\x07", "\x1b]R\x07", "\x1b]4;1;rgb:00/00/00\x07", "\x1b]10;?\x07", "\x1b]52;c;YWJj\x07", "\x1b]104\x07", "\x1b]112\x07", "\x1b]133;A\x07", "\x1b]1337;File=name=YQ==:AAAA\x07", "\x1b]777;notify;a;b\x07", "\x1b]9;4;1;50\x07", "\x1b]8;id=1;http://x\x1b\\",
    "\x1bP$q\"p\x1b\\", "\x1bP+q544e\x1b\\", "\x1bP=1s\x1b\\", "\x1bP=2s\x1b\\", "\u{90}2$t3/5\u{9c}", "\x1bP1000p\x1b\\", "\x1b_Ga=q,i=1;AAAA\x1b\\", "\x1b^pm\x1b\\", "\x1bXsos\x1b\\",
];

/// The core of the save / alternate screen / resize interplay, small enough to go twice as
/// deep as `a_altresize`: each saved context is clamped when its screen is resized - also the
/// one of the screen that is not showing, also after the switch back.
pub fn a_core_deep(cfg: &Cfg) -> Vec<Op> {
    vec![
        c(DecSet(vec![1047])),
        c(DecRst(vec![1047])),
        c(DecSet(vec![1049])),
        c(DecRst(vec![1049])),
        c(DecSet(vec![47])),
        c(Cup(Some(99), Some(99))),
        c(Decsc),
        c(Decrc),
        Op::resize(cfg.cols.max(2) - 1, cfg.rows.max(2) - 1),
        Op::resize(cfg.cols, cfg.rows),
        t("ab"),
    ]
}

/// widths around the multiples of 8, tab movement, stops set and cleared
pub fn a_tab_widths(_cfg: &Cfg) -> Vec<Op> {
    let mut v = vec![c(Ht), c(Cht(Some(3))), c(Cbt(None)), c(Cr), t("a"), c(Hts), c(Tbc(None)), c(Tbc(Some(3))), c(Cha(Some(99)))];
    for w in [7usize, 8, 9, 15, 16, 17, 24] {
        v.push(Op::resize(w, 1));
    }
    v
}

/// Parameters far outside the screen, parameter-count and sub-parameter
/// overflow, every C1 control, DEL, a non-BMP scalar.
pub fn a_extreme() -> Vec<Op> {
    let mut v: Vec<Op> = vec![];
    let big: [u64; 5] = [0, 1, 65535, 65536, 99999999999];
    for f in [
        '@', 'A', 'B', 'C', 'D', 'E', 'F', 'G', 'I', 'J', 'K', 'L', 'M', 'P', 'S', 'T', 'W', 'X',
        'Z', '`', 'a', 'b', 'd', 'e', 'g',
    ] {
        for n in big {
            v.push(Op::raw(&format!("\x1b[{}{}", n, f)));
        }
    }
    for n in big {
        for m in big {
            v.push(Op::raw(&format!("\x1b[{};{}H", n, m)));
            v.push(Op::raw(&format!("\x1b[{};{}r", n, m)));
        }
        v.push(Op::raw(&format!("\x1b[8;{};{}t", n, n)));
        v.push(Op::raw(&format!("\x1b[{}h\x1b[{}l\x1b[?{}h\x1b[?{}l", n, n, n, n)));
        v.push(Op::raw(&format!("\x1b[38;5;{}m\x1b[48;2;{};{};{}m", n, n, n, n)));
        v.push(Op::raw(&format!("\x1b[38:5:{}m\x1b[48:2:{}:{}:{}m", n, n, n, n)));
    }
    // complete colour forms with each component at the byte boundary and beyond
    for ground in [38, 48] {
        for sep in [';', ':'] {
            for n in ["255", "256", "65535", "65536", "99999999999"] {
                for (r, g, b) in [(n, "0", "0"), ("0", n, "0"), ("0", "0", n), (n, n, n)] {
                    v.push(Op::raw(&format!("\x1b[{g0}{s}2{s}{r}{s}{g}{s}{b}m", g0 = ground, s = sep, r = r, g = g, b = b)));
                }
                v.push(Op::raw(&format!("\x1b[1;{g0}{s}5{s}{n};4m", g0 = ground, s = sep, n = n)));
            }
        }
    }
    // 40 parameters, 9 sub-parameters
    let many = vec!["7"; 40].join(";");
    v.push(Op::raw(&format!("\x1b[{}m", many)));
    v.push(Op::raw(&format!("\x1b[{}H", many)));
    v.push(Op::raw(&format!("\x1b[?{}h", many)));
    v.push(Op::raw(&format!("\x1b[{}h", vec!["4"; 40].join(";"))));
    v.push(Op::raw("\x1b[38:2:1:2:3:4:5:6:7m"));
    v.push(Op::raw("\x1b[1:2:3:4:5:6:7:8:9H"));
    v.push(Op::raw(&format!("\x1bP{}q", many)));
    // SGR 38/48 truncated at every position
    for s in [
        "38", "38;", "38;5", "38;5;", "38;2", "38;2;1", "38;2;1;2", "38;2;1;2;", "48;5", "48;2;1;2",
        "38:5", "38:2", "38:2:1", "38:2:1:2", "38:2::1:2", "48:2:1:2", "38;9", "38:9:1", "48;",
    ] {
        v.push(Op::raw(&format!("\x1b[{}m", s)));
    }
    // every C1 control, DEL, non-BMP, NUL
    for cp in 0x80u32..=0x9f {
        v.push(Op::raw(&char::from_u32(cp).unwrap().to_string()));
    }
    v.push(Op::raw("\x7f"));
    v.push(Op::raw("\u{1F600}"));
    v.push(Op::raw("\u{10FFFF}"));
    v.push(Op::raw("\0"));
    v.push(Op::raw("\u{a0}"));
    v.push(Op::raw("\u{ad}"));
    v.push(Op::raw("\u{300}"));
    v
}
