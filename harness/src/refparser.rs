//! `RefParser` — table-driven reference parser transcribed from Paul Williams'
//! DEC-compatible parser diagram with the four deviations named by C03
//! (':' is a sub-parameter separator inside CSI parameters, BEL ends OSC,
//! C1 = U+0080..U+009F, >= U+00A0 behaves like an ordinary final-class
//! printable). Own parameter collector, own dispatch tables, own SGR decoder.

use avt::parser::{
    AnsiMode, CtcOp, DecMode, EdScope, ElScope, Function, SgrOp, State, TbcScope, XtwinopsOp,
};
use avt::Color;

#[derive(Clone, Copy, Debug, PartialEq, Eq, Hash, PartialOrd, Ord)]
pub enum S {
    Ground,
    Escape,
    EscapeIntermediate,
    CsiEntry,
    CsiParam,
    CsiIntermediate,
    CsiIgnore,
    DcsEntry,
    DcsParam,
    DcsIntermediate,
    DcsPassthrough,
    DcsIgnore,
    OscString,
    SosPmApcString,
}

impl S {
    pub fn same(&self, st: &State) -> bool {
        format!("{:?}", self) == format!("{:?}", st)
    }
}

/// character classes of the diagram
#[derive(Clone, Copy, Debug, PartialEq, Eq)]
enum Cl {
    C0,      // 00-17, 19, 1C-1F (executable C0)
    CanSub,  // 18, 1A
    Esc,     // 1B
    Inter,   // 20-2F
    Digit,   // 30-39
    Colon,   // 3A
    Semi,    // 3B
    Private, // 3C-3F
    Final,   // 40-7E (and everything >= A0)
    Del,     // 7F
    C1Exec,  // 80-8F, 91-97, 99, 9A
    Dcs,     // 90
    Sos,     // 98, 9E, 9F
    Csi,     // 9B
    St,      // 9C
    Osc,     // 9D
}

fn class(ch: char) -> Cl {
    let c = ch as u32;
    match c {
        0x18 | 0x1a => Cl::CanSub,
        0x1b => Cl::Esc,
        0x00..=0x1f => Cl::C0,
        0x20..=0x2f => Cl::Inter,
        0x30..=0x39 => Cl::Digit,
        0x3a => Cl::Colon,
        0x3b => Cl::Semi,
        0x3c..=0x3f => Cl::Private,
        0x40..=0x7e => Cl::Final,
        0x7f => Cl::Del,
        0x90 => Cl::Dcs,
        0x98 | 0x9e | 0x9f => Cl::Sos,
        0x9b => Cl::Csi,
        0x9c => Cl::St,
        0x9d => Cl::Osc,
        0x80..=0x9f => Cl::C1Exec,
        _ => Cl::Final,
    }
}

/// what the reference expects of one fed character
#[derive(Debug, PartialEq)]
pub enum Expect {
    /// nothing is returned
    Nothing,
    /// exactly this function
    Fn(Function),
    /// charset designation (payload type is crate-private in avt): Debug string
    FnDebug(String),
    /// the statements do not fix the returned function (state is still compared)
    Unspecified,
}

#[derive(Clone, Debug, PartialEq, Eq, Hash)]
pub struct RefParser {
    pub state: S,
    /// parameters: list of parts; values are kept exactly (u64)
    params: Vec<Vec<u64>>,
    /// a digit, ';' or ':' has been seen since the last clear
    marker: Option<char>,
    inter: Vec<char>,
    overflow: bool,
}

impl Default for RefParser {
    fn default() -> Self {
        Self::new()
    }
}

impl RefParser {
    pub fn new() -> Self {
        RefParser {
            state: S::Ground,
            params: vec![vec![0]],
            marker: None,
            inter: vec![],
            overflow: false,
        }
    }

    fn clear(&mut self) {
        self.params = vec![vec![0]];
        self.marker = None;
        self.inter.clear();
        self.overflow = false;
    }

    fn param(&mut self, ch: char) {
        match ch {
            ';' => {
                self.params.push(vec![0]);
                if self.params.len() > 32 {
                    self.overflow = true;
                }
            }
            ':' => {
                let p = self.params.last_mut().unwrap();
                p.push(0);
                if p.len() > 6 {
                    self.overflow = true;
                }
            }
            d => {
                let p = self.params.last_mut().unwrap();
                let v = p.last_mut().unwrap();
                *v = (*v * 10 + d.to_digit(10).unwrap() as u64).min(1 << 40);
                if *v > 65535 {
                    self.overflow = true;
                }
            }
        }
    }

    fn collect(&mut self, ch: char) {
        if ('<'..='?').contains(&ch) {
            self.marker = Some(ch);
        } else {
            self.inter.push(ch);
        }
    }

    fn execute(&self, ch: char) -> Expect {
        use Function::*;
        match ch as u32 {
            0x08 => Expect::Fn(Bs),
            0x09 => Expect::Fn(Ht),
            0x0a | 0x0b | 0x0c | 0x84 => Expect::Fn(Lf),
            0x0d => Expect::Fn(Cr),
            0x0e => Expect::Fn(So),
            0x0f => Expect::Fn(Si),
            0x85 => Expect::Fn(Nel),
            0x88 => Expect::Fn(Hts),
            0x8d => Expect::Fn(Ri),
            _ => Expect::Nothing,
        }
    }

    fn esc_dispatch(&self, ch: char) -> Expect {
        use Function::*;
        let c = ch as u32;
        match self.inter.as_slice() {
            [] => {
                if (0x40..=0x5f).contains(&c) {
                    // ESC Fe acts exactly like its 8-bit C1 counterpart
                    return self.execute(char::from_u32(c + 0x40).unwrap());
                }
                match ch {
                    '7' => Expect::Fn(Decsc),
                    '8' => Expect::Fn(Decrc),
                    'c' => Expect::Fn(Ris),
                    _ => Expect::Nothing,
                }
            }
            ['#'] => {
                if ch == '8' {
                    Expect::Fn(Decaln)
                } else {
                    Expect::Nothing
                }
            }
            ['('] | [')'] => {
                let name = if self.inter[0] == '(' { "Gzd4" } else { "G1d4" };
                match ch {
                    '0' => Expect::FnDebug(format!("{}(Drawing)", name)),
                    'B' => Expect::FnDebug(format!("{}(Ascii)", name)),
                    // other character sets are not implemented; what they designate is not fixed
                    _ => Expect::Unspecified,
                }
            }
            [a, ..] if *a == '(' || *a == ')' => Expect::Unspecified,
            [_] => Expect::Nothing,
            // several intermediates: avt keeps only the last one
            _ => {
                let last = *self.inter.last().unwrap();
                if last == '#' || last == '(' || last == ')' {
                    Expect::Unspecified
                } else {
                    Expect::Nothing
                }
            }
        }
    }

    fn p16(&self, i: usize) -> u16 {
        self.params.get(i).map(|p| p[0] as u16).unwrap_or(0)
    }

    fn csi_dispatch(&self, ch: char) -> Expect {
        use Function::*;
        if self.overflow {
            return Expect::Unspecified;
        }
        let plain = self.marker.is_none() && self.inter.is_empty();
        let f = |x: Function| Expect::Fn(x);
        if !plain {
            // a private marker together with intermediates, or several
            // intermediates: avt keeps only the last collected character
            if self.inter.len() + self.marker.is_some() as usize > 1 {
                return Expect::Unspecified;
            }
            return match (self.marker, self.inter.as_slice(), ch) {
                (None, ['!'], 'p') => f(Decstr),
                (Some('?'), [], 'h') => f(Decset(self.dec_modes())),
                (Some('?'), [], 'l') => f(Decrst(self.dec_modes())),
                _ => Expect::Nothing,
            };
        }
        let p0 = self.p16(0);
        let p1 = self.p16(1);
        match ch {
            '@' => f(Ich(p0)),
            'A' => f(Cuu(p0)),
            'B' => f(Cud(p0)),
            'C' | 'a' => f(Cuf(p0)),
            'D' => f(Cub(p0)),
            'E' => f(Cnl(p0)),
            'F' => f(Cpl(p0)),
            'G' | '`' => f(Cha(p0)),
            'H' | 'f' => f(Cup(p0, p1)),
            'I' => f(Cht(p0)),
            'J' => match p0 {
                0 => f(Ed(EdScope::Below)),
                1 => f(Ed(EdScope::Above)),
                2 => f(Ed(EdScope::All)),
                3 => f(Ed(EdScope::SavedLines)),
                _ => Expect::Nothing,
            },
            'K' => match p0 {
                0 => f(El(ElScope::ToRight)),
                1 => f(El(ElScope::ToLeft)),
                2 => f(El(ElScope::All)),
                _ => Expect::Nothing,
            },
            'L' => f(Il(p0)),
            'M' => f(Dl(p0)),
            'P' => f(Dch(p0)),
            'S' => f(Su(p0)),
            'T' => f(Sd(p0)),
            'W' => match p0 {
                0 => f(Ctc(CtcOp::Set)),
                2 => f(Ctc(CtcOp::ClearCurrentColumn)),
                5 => f(Ctc(CtcOp::ClearAll)),
                _ => Expect::Nothing,
            },
            'X' => f(Ech(p0)),
            'Z' => f(Cbt(p0)),
            'b' => f(Rep(p0)),
            'd' => f(Vpa(p0)),
            'e' => f(Vpr(p0)),
            'g' => match p0 {
                0 => f(Tbc(TbcScope::CurrentColumn)),
                3 => f(Tbc(TbcScope::All)),
                _ => Expect::Nothing,
            },
            'h' => f(Sm(self.ansi_modes())),
            'l' => f(Rm(self.ansi_modes())),
            'm' => match self.sgr() {
                Some(ops) => f(Sgr(ops)),
                None => Expect::Unspecified,
            },
            'r' => f(Decstbm(p0, p1)),
            's' => f(Scosc),
            't' => {
                if p0 == 8 {
                    f(Xtwinops(XtwinopsOp::Resize(self.p16(2), p1)))
                } else {
                    Expect::Nothing
                }
            }
            'u' => f(Scorc),
            _ => Expect::Nothing,
        }
    }

    fn ansi_modes(&self) -> Vec<AnsiMode> {
        self.params
            .iter()
            .filter_map(|p| match p[0] {
                4 => Some(AnsiMode::Insert),
                20 => Some(AnsiMode::NewLine),
                _ => None,
            })
            .collect()
    }

    fn dec_modes(&self) -> Vec<DecMode> {
        self.params
            .iter()
            .filter_map(|p| match p[0] {
                1 => Some(DecMode::CursorKeys),
                6 => Some(DecMode::Origin),
                7 => Some(DecMode::AutoWrap),
                25 => Some(DecMode::TextCursorEnable),
                47 | 1047 => Some(DecMode::AltScreenBuffer),
                1048 => Some(DecMode::SaveCursor),
                1049 => Some(DecMode::SaveCursorAltScreenBuffer),
                _ => None,
            })
            .collect()
    }

    /// SGR decoder written from the C08 statement. `None` = a malformed
    /// colour form (not specified).
    fn sgr(&self) -> Option<Vec<SgrOp>> {
        use SgrOp::*;
        let ps = &self.params;
        let mut out = vec![];
        let mut i = 0;
        let byte = |v: u64| -> Option<u8> {
            if v <= 255 {
                Some(v as u8)
            } else {
                None
            }
        };
        while i < ps.len() {
            let p = &ps[i];
            i += 1;
            if p.len() > 1 {
                let fg = p[0] == 38;
                if p[0] == 38 || p[0] == 48 {
                    let color = match p.len() {
                        3 if p[1] == 5 => Color::Indexed(byte(p[2])?),
                        5 if p[1] == 2 => Color::rgb(byte(p[2])?, byte(p[3])?, byte(p[4])?),
                        6 if p[1] == 2 => Color::rgb(byte(p[3])?, byte(p[4])?, byte(p[5])?),
                        // a selector that is neither 2 nor 5 (261, 514, 0 ...) makes this no colour
                        // form at all: an unknown parameter, skipped like any other
                        _ if p[1] != 2 && p[1] != 5 => continue,
                        // selector 2 / 5 with the wrong number of components: not specified
                        _ => return None,
                    };
                    out.push(if fg { SetForegroundColor(color) } else { SetBackgroundColor(color) });
                }
                continue;
            }
            let code = p[0];
            match code {
                0 => out.push(Reset),
                1 => out.push(SetBoldIntensity),
                2 => out.push(SetFaintIntensity),
                3 => out.push(SetItalic),
                4 => out.push(SetUnderline),
                5 => out.push(SetBlink),
                7 => out.push(SetInverse),
                9 => out.push(SetStrikethrough),
                21 | 22 => out.push(ResetIntensity),
                23 => out.push(ResetItalic),
                24 => out.push(ResetUnderline),
                25 => out.push(ResetBlink),
                27 => out.push(ResetInverse),
                29 => out.push(ResetStrikethrough),
                30..=37 => out.push(SetForegroundColor(Color::Indexed((code - 30) as u8))),
                90..=97 => out.push(SetForegroundColor(Color::Indexed((code - 90 + 8) as u8))),
                39 => out.push(ResetForegroundColor),
                40..=47 => out.push(SetBackgroundColor(Color::Indexed((code - 40) as u8))),
                100..=107 => out.push(SetBackgroundColor(Color::Indexed((code - 100 + 8) as u8))),
                49 => out.push(ResetBackgroundColor),
                38 | 48 => {
                    let single = |k: usize| -> Option<u64> {
                        ps.get(k).and_then(|q| if q.len() == 1 { Some(q[0]) } else { None })
                    };
                    let color = match single(i) {
                        Some(5) => {
                            let c = Color::Indexed(byte(single(i + 1)?)?);
                            i += 2;
                            c
                        }
                        Some(2) => {
                            let c = Color::rgb(byte(single(i + 1)?)?, byte(single(i + 2)?)?, byte(single(i + 3)?)?);
                            i += 4;
                            c
                        }
                        // a lone 38/48 (no 2/5 selector after it) is an unknown parameter
                        _ => continue,
                    };
                    out.push(if code == 38 { SetForegroundColor(color) } else { SetBackgroundColor(color) });
                }
                _ => {}
            }
        }
        Some(out)
    }

    /// Feed one character: returns what the real parser is expected to return.
    pub fn feed(&mut self, ch: char) -> Expect {
        use S::*;
        let cl = class(ch);
        // "anywhere" transitions
        match cl {
            Cl::CanSub | Cl::C1Exec => {
                self.state = Ground;
                return self.execute(ch);
            }
            Cl::Esc => {
                self.state = Escape;
                self.clear();
                return Expect::Nothing;
            }
            Cl::St => {
                self.state = Ground;
                return Expect::Nothing;
            }
            Cl::Sos => {
                self.state = SosPmApcString;
                return Expect::Nothing;
            }
            Cl::Dcs => {
                self.state = DcsEntry;
                self.clear();
                return Expect::Nothing;
            }
            Cl::Osc => {
                self.state = OscString;
                return Expect::Nothing;
            }
            Cl::Csi => {
                self.state = CsiEntry;
                self.clear();
                return Expect::Nothing;
            }
            _ => {}
        }
        match self.state {
            Ground => match cl {
                Cl::C0 => self.execute(ch),
                _ => Expect::Fn(Function::Print(ch)),
            },
            Escape => match cl {
                Cl::C0 => self.execute(ch),
                Cl::Del => Expect::Nothing,
                Cl::Inter => {
                    self.collect(ch);
                    self.state = EscapeIntermediate;
                    Expect::Nothing
                }
                _ => match ch {
                    '[' => {
                        self.state = CsiEntry;
                        self.clear();
                        Expect::Nothing
                    }
                    ']' => {
                        self.state = OscString;
                        Expect::Nothing
                    }
                    'P' => {
                        self.state = DcsEntry;
                        self.clear();
                        Expect::Nothing
                    }
                    'X' | '^' | '_' => {
                        self.state = SosPmApcString;
                        Expect::Nothing
                    }
                    _ => {
                        self.state = Ground;
                        self.esc_dispatch(ch)
                    }
                },
            },
            EscapeIntermediate => match cl {
                Cl::C0 => self.execute(ch),
                Cl::Del => Expect::Nothing,
                Cl::Inter => {
                    self.collect(ch);
                    Expect::Nothing
                }
                _ => {
                    self.state = Ground;
                    self.esc_dispatch(ch)
                }
            },
            CsiEntry => match cl {
                Cl::C0 => self.execute(ch),
                Cl::Del => Expect::Nothing,
                Cl::Inter => {
                    self.collect(ch);
                    self.state = CsiIntermediate;
                    Expect::Nothing
                }
                Cl::Colon => {
                    self.state = CsiIgnore;
                    Expect::Nothing
                }
                Cl::Digit | Cl::Semi => {
                    self.param(ch);
                    self.state = CsiParam;
                    Expect::Nothing
                }
                Cl::Private => {
                    self.collect(ch);
                    self.state = CsiParam;
                    Expect::Nothing
                }
                _ => {
                    self.state = Ground;
                    self.csi_dispatch(ch)
                }
            },
            CsiParam => match cl {
                Cl::C0 => self.execute(ch),
                Cl::Del => Expect::Nothing,
                // deviation: ':' separates sub-parameters
                Cl::Digit | Cl::Semi | Cl::Colon => {
                    self.param(ch);
                    Expect::Nothing
                }
                Cl::Private => {
                    self.state = CsiIgnore;
                    Expect::Nothing
                }
                Cl::Inter => {
                    self.collect(ch);
                    self.state = CsiIntermediate;
                    Expect::Nothing
                }
                _ => {
                    self.state = Ground;
                    self.csi_dispatch(ch)
                }
            },
            CsiIntermediate => match cl {
                Cl::C0 => self.execute(ch),
                Cl::Del => Expect::Nothing,
                Cl::Inter => {
                    self.collect(ch);
                    Expect::Nothing
                }
                Cl::Digit | Cl::Colon | Cl::Semi | Cl::Private => {
                    self.state = CsiIgnore;
                    Expect::Nothing
                }
                _ => {
                    self.state = Ground;
                    self.csi_dispatch(ch)
                }
            },
            CsiIgnore => match cl {
                Cl::C0 => self.execute(ch),
                Cl::Final => {
                    self.state = Ground;
                    Expect::Nothing
                }
                _ => Expect::Nothing,
            },
            DcsEntry => match cl {
                Cl::C0 | Cl::Del => Expect::Nothing,
                Cl::Colon => {
                    self.state = DcsIgnore;
                    Expect::Nothing
                }
                Cl::Inter => {
                    self.collect(ch);
                    self.state = DcsIntermediate;
                    Expect::Nothing
                }
                Cl::Digit | Cl::Semi => {
                    self.param(ch);
                    self.state = DcsParam;
                    Expect::Nothing
                }
                Cl::Private => {
                    self.collect(ch);
                    self.state = DcsParam;
                    Expect::Nothing
                }
                _ => {
                    self.state = DcsPassthrough;
                    Expect::Nothing
                }
            },
            DcsParam => match cl {
                Cl::C0 | Cl::Del => Expect::Nothing,
                Cl::Digit | Cl::Semi => {
                    self.param(ch);
                    Expect::Nothing
                }
                Cl::Colon | Cl::Private => {
                    self.state = DcsIgnore;
                    Expect::Nothing
                }
                Cl::Inter => {
                    self.collect(ch);
                    self.state = DcsIntermediate;
                    Expect::Nothing
                }
                _ => {
                    self.state = DcsPassthrough;
                    Expect::Nothing
                }
            },
            DcsIntermediate => match cl {
                Cl::C0 | Cl::Del => Expect::Nothing,
                Cl::Inter => {
                    self.collect(ch);
                    Expect::Nothing
                }
                Cl::Digit | Cl::Colon | Cl::Semi | Cl::Private => {
                    self.state = DcsIgnore;
                    Expect::Nothing
                }
                _ => {
                    self.state = DcsPassthrough;
                    Expect::Nothing
                }
            },
            DcsPassthrough | DcsIgnore | SosPmApcString => Expect::Nothing,
            OscString => {
                // deviation: BEL also ends an OSC string
                if ch == '\u{07}' {
                    self.state = Ground;
                }
                Expect::Nothing
            }
        }
    }
}

/// Compare what the real parser returned with the expectation.
pub fn agrees(exp: &Expect, got: &Option<Function>) -> bool {
    match (exp, got) {
        (Expect::Unspecified, _) => true,
        (Expect::Nothing, None) => true,
        (Expect::Fn(a), Some(b)) => a == b,
        (Expect::FnDebug(s), Some(b)) => *s == format!("{:?}", b),
        _ => false,
    }
}
