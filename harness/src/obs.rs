//! Observations through the public API only, and the state fingerprint.

use avt::util::TextUnwrapper;
use avt::{Color, Line, Pen, Vt};
use std::fmt;
use std::hash::Hasher;

/// A pen as seen through the nine public accessors, packed.
/// bits 0..25 fg (0 none, 1+idx indexed, 0x1000000|rgb), 25..50 bg, 50.. attrs
#[derive(Clone, Copy, PartialEq, Eq, Hash, PartialOrd, Ord, Default)]
pub struct PenObs(pub u64);

pub const A_BOLD: u64 = 1;
pub const A_FAINT: u64 = 2;
pub const A_ITALIC: u64 = 4;
pub const A_UNDERLINE: u64 = 8;
pub const A_STRIKE: u64 = 16;
pub const A_BLINK: u64 = 32;
pub const A_INVERSE: u64 = 64;

#[derive(Clone, Copy, PartialEq, Eq, Hash, Debug)]
pub enum Col {
    Idx(u8),
    Rgb(u8, u8, u8),
}

fn enc_color(c: Option<Col>) -> u64 {
    match c {
        None => 0,
        Some(Col::Idx(i)) => 1 + i as u64,
        Some(Col::Rgb(r, g, b)) => 0x1000000 | ((r as u64) << 16) | ((g as u64) << 8) | b as u64,
    }
}
fn dec_color(v: u64) -> Option<Col> {
    if v == 0 {
        None
    } else if v & 0x1000000 != 0 {
        Some(Col::Rgb((v >> 16) as u8, (v >> 8) as u8, v as u8))
    } else {
        Some(Col::Idx((v - 1) as u8))
    }
}

impl PenObs {
    pub fn make(fg: Option<Col>, bg: Option<Col>, attrs: u64) -> PenObs {
        PenObs(enc_color(fg) | (enc_color(bg) << 25) | (attrs << 50))
    }
    pub fn fg(&self) -> Option<Col> {
        dec_color(self.0 & 0x1ffffff)
    }
    pub fn bg(&self) -> Option<Col> {
        dec_color((self.0 >> 25) & 0x1ffffff)
    }
    pub fn attrs(&self) -> u64 {
        self.0 >> 50
    }
    pub fn with_fg(&self, c: Option<Col>) -> PenObs {
        PenObs::make(c, self.bg(), self.attrs())
    }
    pub fn with_bg(&self, c: Option<Col>) -> PenObs {
        PenObs::make(self.fg(), c, self.attrs())
    }
    pub fn with_attrs(&self, a: u64) -> PenObs {
        PenObs::make(self.fg(), self.bg(), a)
    }
    pub fn is_default(&self) -> bool {
        self.0 == 0
    }
    pub fn of(p: &Pen) -> PenObs {
        let cv = |c: Option<Color>| {
            c.map(|c| match c {
                Color::Indexed(i) => Col::Idx(i),
                Color::RGB(x) => Col::Rgb(x.r, x.g, x.b),
            })
        };
        let mut a = 0;
        if p.is_bold() {
            a |= A_BOLD
        }
        if p.is_faint() {
            a |= A_FAINT
        }
        if p.is_italic() {
            a |= A_ITALIC
        }
        if p.is_underline() {
            a |= A_UNDERLINE
        }
        if p.is_strikethrough() {
            a |= A_STRIKE
        }
        if p.is_blink() {
            a |= A_BLINK
        }
        if p.is_inverse() {
            a |= A_INVERSE
        }
        PenObs::make(cv(p.foreground()), cv(p.background()), a)
    }
}

impl fmt::Debug for PenObs {
    fn fmt(&self, f: &mut fmt::Formatter<'_>) -> fmt::Result {
        if self.is_default() {
            return write!(f, "-");
        }
        let mut s = String::new();
        if let Some(c) = self.fg() {
            s.push_str(&format!("fg{:?}", c));
        }
        if let Some(c) = self.bg() {
            s.push_str(&format!("bg{:?}", c));
        }
        let a = self.attrs();
        for (m, n) in [
            (A_BOLD, "B"),
            (A_FAINT, "F"),
            (A_ITALIC, "I"),
            (A_UNDERLINE, "U"),
            (A_STRIKE, "S"),
            (A_BLINK, "K"),
            (A_INVERSE, "V"),
        ] {
            if a & m != 0 {
                s.push_str(n);
            }
        }
        write!(f, "{}", s)
    }
}

pub type CellObs = (char, PenObs);

#[derive(Clone, PartialEq, Eq, Hash)]
pub struct RowObs {
    pub cells: Vec<CellObs>,
    pub wrapped: bool,
}

impl RowObs {
    pub fn blank(cols: usize, pen: PenObs) -> RowObs {
        RowObs {
            cells: vec![(' ', pen); cols],
            wrapped: false,
        }
    }
    pub fn text(&self) -> String {
        self.cells.iter().map(|c| c.0).collect()
    }
}

impl fmt::Debug for RowObs {
    fn fmt(&self, f: &mut fmt::Formatter<'_>) -> fmt::Result {
        let mut s = String::new();
        let mut last: Option<PenObs> = None;
        for (ch, pen) in &self.cells {
            if Some(*pen) != last && !(last.is_none() && pen.is_default()) {
                s.push_str(&format!("<{:?}>", pen));
            }
            last = Some(*pen);
            s.push(*ch);
        }
        if self.wrapped {
            s.push('⏎');
        }
        write!(f, "{:?}", s)
    }
}

pub fn row_obs(line: &Line) -> RowObs {
    let cells = line
        .cells()
        .iter()
        .map(|c| (c.char(), PenObs::of(c.pen())))
        .collect();
    // `Line.wrapped` is crate-private; the public observer is TextUnwrapper.
    let wrapped = TextUnwrapper::new().push(line).is_none();
    RowObs { cells, wrapped }
}

#[derive(Clone, PartialEq, Eq, Hash, Debug)]
pub struct Obs {
    pub size: (usize, usize),
    /// (col, row, visible)
    pub cursor: (usize, usize, bool),
    pub ckm: bool,
    pub rows: Vec<RowObs>,
}

/// The visible screen.
pub fn obs(vt: &Vt) -> Obs {
    let c = vt.cursor();
    Obs {
        size: vt.size(),
        cursor: (c.col, c.row, c.visible),
        ckm: vt.cursor_key_app_mode(),
        rows: vt.view().iter().map(row_obs).collect(),
    }
}

/// Everything in `lines()` (scrollback + screen).
pub fn obs_full(vt: &Vt) -> Obs {
    let c = vt.cursor();
    Obs {
        size: vt.size(),
        cursor: (c.col, c.row, c.visible),
        ckm: vt.cursor_key_app_mode(),
        rows: vt.lines().iter().map(row_obs).collect(),
    }
}

pub fn hash_obs(o: &Obs) -> u64 {
    use std::hash::Hash;
    #[allow(deprecated)]
    let mut h = std::hash::SipHasher::new_with_keys(0x1234, 0x5678);
    o.hash(&mut h);
    h.finish()
}

/// 128-bit fingerprint of the complete implementation state.
pub fn fingerprint(vt: &Vt) -> u128 {
    use std::fmt::Write;
    let mut w = HashWriter::new();
    write!(w, "{:?}", vt).unwrap();
    w.finish()
}

#[allow(deprecated)]
pub struct HashWriter(std::hash::SipHasher, std::hash::SipHasher);

#[allow(deprecated)]
impl HashWriter {
    pub fn new() -> Self {
        HashWriter(
            std::hash::SipHasher::new_with_keys(0x0123456789abcdef, 0xfedcba9876543210),
            std::hash::SipHasher::new_with_keys(0x9e3779b97f4a7c15, 0xc2b2ae3d27d4eb4f),
        )
    }
    pub fn finish(&self) -> u128 {
        ((self.0.finish() as u128) << 64) | self.1.finish() as u128
    }
}

impl std::fmt::Write for HashWriter {
    fn write_str(&mut self, s: &str) -> std::fmt::Result {
        self.0.write(s.as_bytes());
        self.1.write(s.as_bytes());
        Ok(())
    }
}

pub fn fp_str(s: &str) -> u128 {
    fp_bytes(s.as_bytes())
}

#[allow(deprecated)]
pub fn fp_bytes(b: &[u8]) -> u128 {
    let mut h1 = std::hash::SipHasher::new_with_keys(0x0123456789abcdef, 0xfedcba9876543210);
    let mut h2 = std::hash::SipHasher::new_with_keys(0x9e3779b97f4a7c15, 0xc2b2ae3d27d4eb4f);
    h1.write(b);
    h2.write(b);
    ((h1.finish() as u128) << 64) | h2.finish() as u128
}

pub fn fp_combine(a: u128, b: u128) -> u128 {
    let mut v = Vec::with_capacity(32);
    v.extend_from_slice(&a.to_le_bytes());
    v.extend_from_slice(&b.to_le_bytes());
    fp_bytes(&v)
}

/// Short human-readable rendering of a state for replay files.
pub fn render(vt: &Vt) -> String {
    let o = obs_full(vt);
    format!(
        "size={:?} cursor={:?} ckm={} lines={:?}",
        o.size, o.cursor, o.ckm, o.rows
    )
}

/// Is the alternate screen showing? Decided syntactically from `Debug`
/// (`active_buffer_type: Alternate`); used only for bookkeeping/classification,
/// the oracles that depend on it use the syntactic ghost of the history.
pub fn debug_alt_active(vt: &Vt) -> bool {
    format!("{:?}", vt).contains("active_buffer_type: Alternate")
}
