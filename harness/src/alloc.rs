//! Counting allocator: bytes requested by the current thread (for the C01
//! work envelope). Thread-local, const-initialised, so it never allocates.

use std::alloc::{GlobalAlloc, Layout, System};
use std::cell::Cell;

pub struct Counting;

thread_local! {
    static BYTES: Cell<u64> = const { Cell::new(0) };
}

unsafe impl GlobalAlloc for Counting {
    unsafe fn alloc(&self, l: Layout) -> *mut u8 {
        let _ = BYTES.try_with(|b| b.set(b.get().wrapping_add(l.size() as u64)));
        System.alloc(l)
    }
    unsafe fn dealloc(&self, p: *mut u8, l: Layout) {
        System.dealloc(p, l)
    }
    unsafe fn realloc(&self, p: *mut u8, l: Layout, new: usize) -> *mut u8 {
        if new > l.size() {
            let _ = BYTES.try_with(|b| b.set(b.get().wrapping_add((new - l.size()) as u64)));
        }
        System.realloc(p, l, new)
    }
    unsafe fn alloc_zeroed(&self, l: Layout) -> *mut u8 {
        let _ = BYTES.try_with(|b| b.set(b.get().wrapping_add(l.size() as u64)));
        System.alloc_zeroed(l)
    }
}

pub fn bytes() -> u64 {
    BYTES.with(|b| b.get())
}
