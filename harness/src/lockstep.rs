//! Lock-step exploration of (real Vt, RefTerm).

use crate::engine::{Out, System};
use crate::obs::{fingerprint, fp_combine, fp_str, obs_full};
use crate::ops::Cmd::*;
use crate::ops::*;
use crate::refterm::{RefTerm, StepRes};
use avt::Vt;

/// Which properties' statements determine the effect of a command.
pub fn owners(cmd: &Cmd) -> &'static [&'static str] {
    match cmd {
        Text(_) | Rep(_) | So | Si | Desig(..) => &["C04"],
        Sm(_) | Rm(_) => &["C04"],
        Bs | Cr | Cuu(_) | Cud(_) | Cuf(_) | Cub(_) | Cnl(_) | Cpl(_) | Cha(_) | Cup(..) | Vpa(_) | Vpr(_) => &["C05"],
        Ht | Cht(_) | Cbt(_) => &["C05", "C18"],
        Lf | Nel | Ri => &["C05", "C06"],
        Su(_) | Sd(_) | Il(_) | Dl(_) => &["C06"],
        Decstbm(..) => &["C05", "C06"],
        Ed(_) | El(_) | Ech(_) | Ich(_) | Dch(_) | Decaln => &["C07"],
        Sgr(_) => &["C08"],
        Decsc | Decrc | Scosc | Scorc => &["C17"],
        Hts | Ctc(_) | Tbc(_) => &["C18"],
        Resize(..) => &["C18", "C05", "C06", "C17", "C16"],
        Decstr => &["C17"],
        DecSet(v) | DecRst(v) => {
            // (a list that names modes of several owners belongs to all of them)
            let screens = v.iter().any(|m| matches!(m, 47 | 1047 | 1049));
            if screens && v.contains(&6) {
                &["C16", "C17", "C05"]
            } else if screens && v.contains(&7) {
                &["C16", "C17", "C04"]
            } else if v.iter().any(|m| matches!(m, 47 | 1047)) {
                &["C16"]
            } else if v.contains(&1049) {
                &["C16", "C17"]
            } else if v.contains(&1048) {
                &["C17"]
            } else if v.contains(&6) {
                &["C05"]
            } else if v.contains(&7) {
                &["C04"]
            } else {
                &[]
            }
        }
        Ris => &["C19"],
        Seq(_) | Inert(_) | Raw(_) => &[],
    }
}

pub struct LockStep {
    pub property: &'static str,
    pub probes: bool,
    /// optional prefix fed (in lock-step) before the explored history
    pub seed: Option<&'static (dyn Fn(&Cfg) -> Vec<Cmd> + Sync)>,
    /// deliver every command through `feed()` per character instead of `feed_str` (no call
    /// boundaries between commands: whatever a terminal remembers "until the end of the call"
    /// stays remembered)
    pub via_feed: bool,
    /// keep twin terminals (unlimited configurations only) that get the same history with
    /// fewer call boundaries - one gets every multi-command op (`Seq`) in ONE `feed_str` call,
    /// two get the ops two per call (even and odd phase) - while the compared terminal gets
    /// one call per command; whenever a twin has been given everything, it must agree (screen,
    /// cursor, dump, hidden state) - so the reference model's verdict on the per-command run
    /// carries over to runs without those call boundaries
    pub merged: bool,
}

pub struct LSt {
    pub vt: Vt,
    pub model: RefTerm,
    pub dead: bool,
    pub twins: Vec<Twin>,
}

fn flatten(cmd: &Cmd, out: &mut Vec<Cmd>) {
    match cmd {
        Seq(v) => {
            for c in v {
                flatten(c, out);
            }
        }
        c => out.push(c.clone()),
    }
}

pub enum Outcome {
    Ok,
    Unspecified(String),
    Mismatch(Cmd, String),
}

/// After a divergence that is not this check's business: bring the model back
/// in line with the implementation. False = cannot continue from here.
pub fn resync(st: &mut LSt) -> bool {
    let o = obs_full(&st.vt);
    let h = st.vt.verif_state();
    st.model.resync(&o, &h)
}

/// Apply one op to both; stops at the first non-Ok part.
pub fn lock_apply(st: &mut LSt, op: &Op) -> Outcome {
    lock_apply_via(st, op, false)
}

pub struct Twin {
    pub vt: Vt,
    /// text of the ops not yet delivered, and how many ops it holds
    pending: String,
    held: usize,
    /// deliver when this many ops are held (1 = every op in its own call, multi-command ops
    /// in one; 2 = ops in pairs)
    every: usize,
    /// the first delivery of the "pairs" twin with the odd phase happens after one op
    first: usize,
}

impl Twin {
    fn new(cfg: &Cfg, every: usize, first: usize) -> Twin {
        Twin { vt: build_vt(cfg.cols, cfg.rows, cfg.limit), pending: String::new(), held: 0, every, first }
    }
    fn flush(&mut self) {
        if self.held > 0 {
            let _ = self.vt.feed_str(&self.pending).scrollback.count();
            self.pending.clear();
            self.held = 0;
            self.first = self.every;
        }
    }
}

pub fn lock_apply_via(st: &mut LSt, op: &Op, via_feed: bool) -> Outcome {
    if st.twins.is_empty() {
        return lock_apply_split(st, op, via_feed);
    }
    let mut parts = vec![];
    flatten(&op.cmd, &mut parts);
    for tw in st.twins.iter_mut() {
        let mut text = String::new();
        for p in &parts {
            match p {
                Resize(c, r) => {
                    if !text.is_empty() {
                        tw.pending.push_str(&text);
                        tw.held += 1;
                        text.clear();
                    }
                    tw.flush();
                    let _ = tw.vt.resize(*c, *r).scrollback.count();
                }
                p => text.push_str(&if parts.len() == 1 { op.text.clone() } else { p.spell(SP7) }),
            }
        }
        if !text.is_empty() || parts.iter().all(|p| !matches!(p, Resize(..))) {
            tw.pending.push_str(&text);
            tw.held += 1;
            if tw.held >= tw.first {
                tw.flush();
            }
        }
    }
    match lock_apply_split(st, op, via_feed) {
        Outcome::Ok => {}
        other => return other,
    }
    for tw in st.twins.iter() {
        if tw.held > 0 {
            continue;
        }
        let how = if tw.every == 1 { "each multi-command op delivered in one call" } else { "the ops delivered two per call" };
        let (a, b) = (obs_full(&st.vt), obs_full(&tw.vt));
        if a != b {
            return Outcome::Mismatch(
                op.cmd.clone(),
                format!("delivered in one call ({}): cursor {:?} rows {:?}; one call per command: cursor {:?} rows {:?}", how, b.cursor, b.rows, a.cursor, a.rows),
            );
        }
        let (da, db) = (st.vt.dump(), tw.vt.dump());
        if da != db {
            return Outcome::Mismatch(op.cmd.clone(), format!("delivered in one call ({}): dump {}; one call per command: dump {}", how, crate::ops::esc(&db), crate::ops::esc(&da)));
        }
        let (ha, hb) = (format!("{:?}", st.vt.verif_state()), format!("{:?}", tw.vt.verif_state()));
        if ha != hb {
            return Outcome::Mismatch(op.cmd.clone(), format!("delivered in one call ({}): hidden state {}; one call per command: {}", how, hb, ha));
        }
    }
    Outcome::Ok
}

fn lock_apply_split(st: &mut LSt, op: &Op, via_feed: bool) -> Outcome {
    let mut parts = vec![];
    flatten(&op.cmd, &mut parts);
    let single = parts.len() == 1;
    for part in parts {
        let mut handed: Option<Vec<crate::obs::RowObs>> = None;
        match part {
            Resize(c, r) => {
                let _ = st.vt.resize(c, r).scrollback.count();
            }
            ref p => {
                let text = if single { op.text.clone() } else { p.spell(SP7) };
                if via_feed {
                    for ch in text.chars() {
                        st.vt.feed(ch);
                    }
                } else {
                    handed = Some(st.vt.feed_str(&text).scrollback.map(|l| crate::obs::row_obs(&l)).collect());
                }
            }
        }
        let o = obs_full(&st.vt);
        match st.model.step(&part, &o) {
            StepRes::Ok => {
                if let Err(w) = st.model.compare_hidden(&st.vt.verif_state()) {
                    return Outcome::Mismatch(part, format!("hidden state: {}", w));
                }
                // a terminal configured to keep no scrollback: the rows this call scrolled off
                // the primary screen are handed to the caller, unchanged and in order
                // (not judged for the commands that switch screens: leaving the alternate screen
                // re-flows the parked primary after a resize, and what that pushes off is adopted)
                let switches = matches!(part, DecSet(_) | DecRst(_) | Ris | Decstr);
                if let (true, false, Some(h)) = (st.model.no_scrollback, switches, handed.as_ref()) {
                    let want = &st.model.handed_out;
                    let same = h.len() == want.len() && h.iter().zip(want.iter()).all(|(a, b)| a.cells == b.cells);
                    if !same {
                        return Outcome::Mismatch(
                            part,
                            format!(
                                "scrollback has lost rows: the call handed out {:?}, expected {:?}",
                                h.iter().map(|r| r.cells.iter().map(|c| c.0).collect::<String>()).collect::<Vec<_>>(),
                                want.iter().map(|r| r.cells.iter().map(|c| c.0).collect::<String>()).collect::<Vec<_>>()
                            ),
                        );
                    }
                }
            }
            StepRes::Unspecified(w) => return Outcome::Unspecified(w),
            StepRes::Mismatch(w) => return Outcome::Mismatch(part, w),
        }
    }
    Outcome::Ok
}

pub fn probe_list(cols: usize, rows: usize) -> Vec<Vec<Cmd>> {
    let tx = |s: &str| Text(s.to_string());
    let _ = (cols, rows);
    vec![
        vec![tx("x")],
        vec![tx("xy")],
        vec![tx("q")],
        vec![So, tx("q")],
        vec![Si, tx("q")],
        vec![Cup(Some(1), Some(1)), tx("xy")],
        vec![Cup(Some(99), Some(99)), tx("xy")],
        vec![Cup(Some(99), Some(1)), tx("x")],
        vec![Cud(Some(99))],
        vec![Cuu(Some(99))],
        vec![Cup(Some(99), Some(1)), Lf, Lf],
        vec![Cup(Some(1), Some(1)), Ri],
        vec![Cr, Ht, Ht, Ht, Ht],
        vec![Cup(Some(1), Some(99)), Cbt(None), Cbt(None), Cbt(None)],
        vec![Decrc, tx("x")],
        vec![Decrc, Cup(Some(1), Some(1)), tx("x")],
        vec![Decrc, Cup(Some(99), Some(99)), tx("xy")],
        vec![El(None)],
        vec![DecRst(vec![1047]), Decrc, tx("x")],
        vec![DecSet(vec![1047]), Decrc, Cup(Some(99), Some(99)), tx("xy")],
    ]
}

impl LockStep {
    /// Is a mismatch after `cmd` (described by `what`) a violation of this
    /// check's property? Hidden components have fixed owners.
    pub fn blame(&self, cmd: &Cmd, what: &str) -> bool {
        let p = self.property;
        if what.starts_with("delivered in one call") {
            // the per-command run agreed with the reference terminal; the merged-call twin
            // is this part's own oracle
            return true;
        }
        if what.starts_with("hidden state: pending-wrap flag") {
            return p == "C04" || p == "C02";
        }
        if what.starts_with("hidden state: tab stops") {
            return p == "C18";
        }
        if what.starts_with("hidden state: saved context") {
            return p == "C17";
        }
        if what.starts_with("hidden state: margins") {
            return p == "C05" || p == "C06";
        }
        if what.starts_with("hidden state: alternate screen") {
            return p == "C16";
        }
        if p == "C06"
            && (what.starts_with("scrollback has")
                || (what.starts_with("scrollback line") && !what.contains("soft-wrap mark")))
        {
            // what lands in the scrollback is C06's business whichever command scrolled
            return true;
        }
        if p == "C04" && what.contains("blank cell has pen") {
            // printing never creates blanks; a wrongly penned blank comes from the
            // scroll a wrap caused, and what a scroll leaves behind is C06/C08's business
            return false;
        }
        if p == "C08" && what.contains("blank cell has pen") {
            // "every cell ... blanked afterwards reports exactly that pen"
            return true;
        }
        if p == "C08" && (what.contains("[pen-only]") || what.starts_with("hidden state: pen")) {
            // "every cell printed or blanked afterwards reports exactly that pen"
            return true;
        }
        if matches!(cmd, Decstr) {
            // only the "nothing saved any more" part of a soft reset is fixed (C17, R6)
            return p == "C17" && what.starts_with("hidden state: saved context");
        }
        if matches!(cmd, Resize(..)) {
            // everything else a resize does is adopted or judged relationally (C10, C16)
            return false;
        }
        owners(cmd).contains(&p)
    }
}

impl System for LockStep {
    type St = LSt;
    fn init(&self, cfg: &Cfg) -> LSt {
        let mut st = LSt {
            vt: build_vt(cfg.cols, cfg.rows, cfg.limit),
            model: RefTerm::new(cfg.cols, cfg.rows),
            dead: false,
            twins: if self.merged && cfg.limit.is_none() { vec![Twin::new(cfg, 1, 1), Twin::new(cfg, 2, 2), Twin::new(cfg, 2, 1)] } else { vec![] },
        };
        assert!(!(self.merged && (self.seed.is_some() || self.via_feed)), "merged-call twins are not fed the seed, and need calls");
        match cfg.limit {
            None => {}
            Some(0) => st.model.no_scrollback = true,
            Some(_) => st.model.limited = true,
        }
        if let Some(f) = self.seed {
            let cmds = f(cfg);
            // a seed of cursor addressing and text only (the screen fill) is executed as one
            // call and compared once, with its last command - on an 80x24 screen comparing
            // after each of its ~50 commands would dominate the cost of every transition
            let plain = cmds.len() > 1 && cmds.iter().all(|c| matches!(c, Cup(..) | Text(_) | Sgr(_) | Ech(_)));
            if plain && cfg.limit.is_none() {
                let (last, head) = cmds.split_last().unwrap();
                let text: String = head.iter().map(|c| c.spell(SP7)).collect();
                let _ = st.vt.feed_str(&text).scrollback.count();
                for cmd in head {
                    if !st.model.blind(cmd) {
                        st.dead = true;
                    }
                }
                match lock_apply(&mut st, &Op::new(last.clone())) {
                    Outcome::Ok => {}
                    _ => st.dead = true,
                }
            } else {
                for cmd in cmds {
                    let op = Op::new(cmd);
                    match lock_apply(&mut st, &op) {
                        Outcome::Ok => {}
                        _ => st.dead = true,
                    }
                }
            }
        }
        st
    }
    fn step(&self, _cfg: &Cfg, st: &mut LSt, op: &Op, out: Option<&mut Out>) {
        if st.dead {
            if let Some(out) = out {
                out.prune = true;
            }
            return;
        }
        let res = lock_apply_via(st, op, self.via_feed);
        if out.is_none() {
            // replaying a history: reproduce what exploration did on a foreign divergence
            match &res {
                Outcome::Ok => {}
                Outcome::Unspecified(_) => st.dead = true,
                Outcome::Mismatch(cmd, w) => {
                    if self.blame(cmd, w) || matches!(op.cmd, Seq(_)) || !resync(st) {
                        st.dead = true;
                    }
                }
            }
            return;
        }
        if let Some(out) = out {
            out.count("lockstep_transitions");
            match res {
                Outcome::Ok => {
                    out.obs_hash = Some(crate::obs::hash_obs(&obs_full(&st.vt)));
                }
                Outcome::Unspecified(w) => {
                    out.prune = true;
                    out.count("pruned_unspecified");
                    let _ = w;
                }
                Outcome::Mismatch(cmd, w) => {
                    if self.blame(&cmd, &w) {
                        out.violate(
                            self.property,
                            "reference-terminal",
                            format!("after {:?}: {}", cmd, w),
                        );
                    } else {
                        out.count("foreign_divergence");
                        out.notes.push(format!(
                            "foreign-divergence property={:?} (seen by the {} check) after {:?}: {}",
                            owners(&cmd),
                            self.property,
                            cmd,
                            w
                        ));
                        // the rest of a multi-part op was not executed: stop here,
                        // otherwise continue from the state the implementation is in
                        if matches!(op.cmd, Seq(_)) || !resync(st) {
                            out.prune = true;
                            st.dead = true;
                        }
                    }
                }
            }
        }
    }
    fn key(&self, st: &LSt) -> u128 {
        let m = &st.model;
        let hidden = format!(
            "{:?}",
            (
                (m.col, m.row, m.pending, m.pen, m.awm, m.irm, m.origin, m.lnm),
                (m.g, m.active, m.top, m.bottom, &m.tabs),
                (&m.saved, &m.other_saved, m.visible, m.ckm, m.alt_showing(), st.dead)
            )
        );
        fp_combine(fingerprint(&st.vt), fp_str(&hidden))
    }
    fn has_state_hook(&self) -> bool {
        self.probes
    }
    fn on_state(&self, cfg: &Cfg, hist: &[&Op], st: &mut LSt, rebuild: &dyn Fn() -> LSt, out: &mut Out) {
        if !self.probes || st.dead {
            return;
        }
        let last: Option<Cmd> = hist.last().map(|o| {
            let mut parts = vec![];
            flatten(&o.cmd, &mut parts);
            parts.pop().unwrap_or(o.cmd.clone())
        });
        let (cols, rows) = st.vt.size();
        let _ = cfg;
        for probe in probe_list(cols, rows) {
            let mut p = rebuild();
            if p.dead {
                return;
            }
            for cmd in &probe {
                out.count("probe_steps");
                match lock_apply(&mut p, &Op::new(cmd.clone())) {
                    Outcome::Ok => {}
                    Outcome::Unspecified(_) => break,
                    Outcome::Mismatch(c2, w) => {
                        // hidden state is compared directly after every step, so a
                        // probe mismatch is the doing of the probe command itself
                        let _ = &last;
                        let culprit = c2.clone();
                        if self.blame(&culprit, &w) {
                            out.violate(
                                self.property,
                                "reference-terminal-probe",
                                format!("probe {:?} at {:?}: {}", probe, c2, w),
                            );
                            return;
                        } else {
                            out.count("foreign_divergence");
                            out.notes.push(format!(
                                "foreign-divergence property={:?} (seen by the {} check) probe {:?} after {:?}: {}",
                                owners(&culprit),
                                self.property,
                                probe,
                                culprit,
                                w
                            ));
                        }
                        break;
                    }
                }
            }
        }
    }
}
