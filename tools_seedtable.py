#!/usr/bin/env python3
# regenerates the seeded-changes table in DESIGN.md (between the SEEDTABLE markers) from seeded/*/meta.json
import json,os,re
rows=[]
for d in sorted(os.listdir('/verif/seeded')):
    if not os.path.isdir(f'/verif/seeded/{d}') or d == 'refactors': continue
    m=json.load(open(f'/verif/seeded/{d}/meta.json'))
    rd=open(f'/verif/seeded/{d}/README.md').read()
    title=''
    for l in rd.splitlines():
        l=l.strip()
        if l and not l.startswith('```'):
            title=re.sub(r'^#+\s*','',l); break
    title=re.sub(r'^(C\d\d )?[Mm]utant \d\s*[-–—:]\s*','',title)
    diff=open(f'/verif/seeded/{d}/patch.diff').read()
    files=sorted(set(re.findall(r'^\+\+\+ b/(\S+)',diff,re.M)))
    own=m['results'].get(m['breaks_property'],{})
    first=own.get('first')
    orc=first[0] if isinstance(first,list) and first else ''
    det='yes' if own.get('exit')==1 else ('no (judged outside the statement, see meta.json)' if m.get('judgement') else '**NO**')
    rows.append((d,', '.join(f.replace('src/','') for f in files),title[:120].replace('|','/'),det,orc))
table='| seed | file(s) | change | found by own quick check | oracle that fires |\n|------|---------|--------|---------------------------|-------------------|\n'+'\n'.join('| '+' | '.join(r)+' |' for r in rows)
p='/verif/DESIGN.md'
s=open(p).read()
a=s.index('<!-- SEEDTABLE -->'); b=s.index('<!-- /SEEDTABLE -->')
s=s[:a]+'<!-- SEEDTABLE -->\n'+table+'\n'+s[b:]
open(p,'w').write(s)
print(len(rows),'rows;', sum(1 for r in rows if r[3]=='yes'),'detected')
