#!/usr/bin/env python3
"""Regenerate the "as built" table of DESIGN.md (between the ASBUILT markers) from the evidence files:
quick tier from /verif/evidence/, thorough tier from /verif/evidence-thorough/ (a copy of the evidence
written by the last complete thorough run of every check against /repo)."""
import json, os, re

def fmt_n(n):
    n = int(n)
    if n >= 10_000_000: return f'{n/1e6:.0f} M'
    if n >= 1_000_000: return f'{n/1e6:.1f} M'
    if n >= 10_000: return f'{n/1e3:.0f} k'
    return str(n)

def describe(p):
    if 'configs' in p and isinstance(p['configs'], list):
        cfgs = [c['config'] for c in p['configs']]
        a = sorted(set(c['alphabet_size'] for c in p['configs']))
        alpha = f'{a[0]}' if len(a) == 1 else f'{a[0]}–{a[-1]}'
        fix = any(c.get('fixpoint') for c in p['configs'])
        d = p.get('depth_completed')
        ds = f'fixpoint at depth {d}' if fix else f'depth {d}'
        cap = ' **capped**' if p.get('capped') else ''
        if p.get('capped'):
            # a capped part: the depth each configuration completed (0 = its share of the budget was gone)
            per = [str(c.get('depth_completed', 0)) for c in p['configs']]
            ds = f'depth {p.get("depth")} requested, completed per configuration: ' + '/'.join(per[:12]) + ('…' if len(per) > 12 else '')
        shown = ', '.join(cfgs[:6]) + (f', … ({len(cfgs)})' if len(cfgs) > 6 else '')
        return f'{alpha} ops; {shown}; {ds}; {fmt_n(p["states"])} states / {fmt_n(p["transitions"])} transitions{cap}'
    keys = [k for k in p if k not in ('part', 'wall_s', 'violating', 'violating_texts', 'violating_strings', 'violations')]
    out = []
    for k in keys:
        v = p[k]
        if isinstance(v, bool): out.append(f'{k}={"yes" if v else "no"}')
        elif isinstance(v, (int, float)): out.append(f'{k}={fmt_n(v)}')
        elif isinstance(v, str): out.append(f'{k}={v!r}')
    return ', '.join(out)

def parts_of(path):
    if not os.path.exists(path): return None
    d = json.load(open(path))
    res = {}
    for p in d['coverage']['parts']:
        name = p['part']
        if name in res:  # same part once per config (C12)
            res[name].append(p)
        else:
            res[name] = [p]
    return res

rows = []
for i in range(1, 21):
    cid = f'C{i:02d}'
    q = parts_of(f'/verif/evidence/{cid}.json') or {}
    t = parts_of(f'/verif/evidence-thorough/{cid}.json') or {}
    names = list(q) + [n for n in t if n not in q]
    first = True
    for n in names:
        def cell(ps):
            if not ps: return '—'
            if len(ps) == 1: return describe(ps[0])
            cfg = ', '.join(str(p.get('config')) for p in ps)
            one = {k: v for k, v in ps[0].items() if k != 'config'}
            return f'{len(ps)} configs ({cfg}), each: ' + describe(one)
        rows.append(f'| {cid if first else ""} | `{n}` | {cell(q.get(n))} | {cell(t.get(n))} |')
        first = False
table = ('| id | part | quick tier (as measured) | thorough tier (as measured) |\n|----|------|--------------------------|-----------------------------|\n'
         + '\n'.join(rows))
s = open('/verif/DESIGN.md').read()
a, b = '<!-- ASBUILT -->', '<!-- /ASBUILT -->'
assert a in s and b in s
s = s[:s.index(a) + len(a)] + '\n' + table + '\n' + s[s.index(b):]
open('/verif/DESIGN.md', 'w').write(s)
print(len(rows), 'rows')
