//! Engine self-check: the reachable set of implementation fingerprints computed by
//! stateright's parallel BFS must equal the set computed by avtmc's own engine
//! (`avtmc selfcheck-dump`), for the same alphabet, configuration and depth.
#![allow(dead_code)]

#[path = "../../harness/src/ops.rs"]
mod ops;
#[path = "../../harness/src/obs.rs"]
mod obs;
#[path = "../../harness/src/alphabets.rs"]
mod alphabets;

use ops::*;
use stateright::{Checker, Model, Property};
use std::collections::BTreeSet;
use std::hash::{Hash, Hasher};
use std::sync::Mutex;

static SEEN: Mutex<BTreeSet<u128>> = Mutex::new(BTreeSet::new());

#[derive(Clone, Debug)]
struct St {
    hist: Vec<u16>,
    fp: u128,
}
impl PartialEq for St {
    fn eq(&self, o: &Self) -> bool {
        self.fp == o.fp && self.hist.len() == o.hist.len()
    }
}
impl Eq for St {}
impl Hash for St {
    fn hash<H: Hasher>(&self, h: &mut H) {
        self.fp.hash(h);
        self.hist.len().hash(h);
    }
}

struct M {
    cfg: Cfg,
    alphabet: Vec<Op>,
    depth: usize,
}

impl M {
    fn fp_of(&self, hist: &[u16]) -> u128 {
        let mut vt = self.cfg.build();
        for &i in hist {
            let _ = apply(&mut vt, &self.alphabet[i as usize]);
        }
        obs::fingerprint(&vt)
    }
}

impl Model for M {
    type State = St;
    type Action = u16;
    fn init_states(&self) -> Vec<St> {
        vec![St { hist: vec![], fp: self.fp_of(&[]) }]
    }
    fn actions(&self, s: &St, out: &mut Vec<u16>) {
        if s.hist.len() < self.depth {
            out.extend(0..self.alphabet.len() as u16);
        }
    }
    fn next_state(&self, s: &St, a: u16) -> Option<St> {
        let mut h = s.hist.clone();
        h.push(a);
        let fp = self.fp_of(&h);
        Some(St { hist: h, fp })
    }
    fn properties(&self) -> Vec<Property<Self>> {
        vec![Property::always("record", |_, s: &St| {
            SEEN.lock().unwrap().insert(s.fp);
            true
        })]
    }
}

fn main() {
    let args: Vec<String> = std::env::args().collect();
    let depth: usize = args[1].parse().unwrap();
    let file = &args[2];
    let cfg = Cfg::new(2, 2, None);
    let alphabet = alphabets::a_altresize(&cfg, &[(1, 1), (3, 2), (2, 3)]);
    let m = M { cfg, alphabet, depth };
    let checker = m.checker().threads(16).spawn_bfs().join();
    let mine: BTreeSet<u128> = SEEN.lock().unwrap().clone();
    let theirs: BTreeSet<u128> = std::fs::read_to_string(file)
        .unwrap()
        .lines()
        .map(|l| u128::from_str_radix(l.trim(), 16).unwrap())
        .collect();
    println!(
        "stateright: {} unique (fingerprint, depth) states generated, {} distinct fingerprints; avtmc engine: {} distinct fingerprints",
        checker.unique_state_count(),
        mine.len(),
        theirs.len()
    );
    if mine == theirs {
        println!("SELFCHECK OK: identical reachable sets at depth {}", depth);
    } else {
        let a = mine.difference(&theirs).count();
        let b = theirs.difference(&mine).count();
        println!("SELFCHECK FAILED: {} only in stateright, {} only in avtmc", a, b);
        std::process::exit(1);
    }
}
