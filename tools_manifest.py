#!/usr/bin/env python3
# regenerates MANIFEST.json from the table below (kept in sync with harness/src/checks/*)
import json
props=[json.loads(l) for l in open('/verif/properties.jsonl')]
BFS="explicit-state BFS of the real implementation over bounded op histories"
LS="explicit-state BFS of the (real Vt, reference terminal) product in lock-step; reference-model oracle on every transition + hidden state via feature hook"
T={
"C01":("Bounded exhaustive exploration of the real Vt in an overflow-checks + debug-assertions build: all op histories up to the depth bound over ~90 ops (every function, truncated sequences, resizes, every Changes treatment) on 1x1..4x3 screens x scrollback limits; at every state all accessors, TextCollector, and an extreme-parameter layer (0/1/65535/65536/1e11 for every CSI final, 40 params, 9 sub-params, truncated SGR, all C1) followed by ordinary ops; two deeper sub-alphabet runs (save/alternate-screen/resize chains to depth 6-8; origin-mode/margins/save chains to depth 5-7) with every accessor incl. dump() at every state; plus every Unicode scalar from every parser state. Oracle: no panic, CPU-time watchdog, per-call allocation envelope.",
       "Running time is only judged against a coarse envelope (60 s of CPU per job, allocation bytes per call); screens bounded.", BFS+" + exhaustive scalar sweep; no-panic/work-envelope oracle"),
"C02":("Bounded exhaustive exploration of the real Vt: every op history up to the depth bound over a ~85-op alphabet (all functions, modes, truncated sequences, resizes, feed/feed_str/drop variants) on 1x1..4x3 screens and 3-6 scrollback limits, plus a deeper alt-screen/resize sub-alphabet; all geometry invariants evaluated after every single call.",
       "Screens and depths are bounded as reported in the evidence; dedup relies on derived Debug covering all state and a 128-bit hash.", BFS+", invariant oracle after every call"),
"C03":("Every (parser state x parameter/intermediate background) x every listed Unicode scalar compared with a table-driven reference parser transcribed from Williams' diagram (+ the four stated deviations); every CSI final x prefix x 44 parameter shapes x intermediates in 7- and 8-bit form and every ESC final x intermediates, each after a parameter-heavy sequence; ESC Fe vs C1 twins from every background; product BFS of (real Parser, reference) over class-representative tokens for memorylessness.",
       "Functions not compared where the statements do not fix them (>32 params, >6 sub-params, values >65535, malformed SGR colours, marker+intermediate combinations, charset finals other than 0/B).", "exhaustive state x input table sweep + explicit-state product BFS against a reference parser"),
"C04":("Lock-step BFS of (real Vt, reference terminal) over printable chars of every class, REP, DECAWM/IRM, SO/SI, G0/G1 designation and cursor/margin/pen/resize setup on 1x1..4x2 screens; full lines(), cursor, hidden modes and the wrap mark of the row left by a wrap compared after every transition; plus the complete charset translation table.",
       "Readings R1-R7 (DESIGN §3.2); screens tiny.", LS),
"C05":("Lock-step BFS over every movement/addressing command x parameter class x spelling, DECOM, valid/invalid DECSTBM, wrap-pending setup and resizes; cursor, cells (must not change), margins and modes compared after every transition.",
       "Readings R1-R7; wrap-pending column compared as min(col, cols-1) after vertical moves.", LS),
"C06":("Lock-step BFS from screens whose rows carry distinct content: LF/IND/NEL/RI, SU/SD/IL/DL x counts incl. 65535, valid/invalid DECSTBM, wrap-causing text, coloured pen, alternate screen, resizes; every row of lines() incl. scrollback and the margins compared after every transition.",
       "Wrap marks after scrolls adopted; unlimited scrollback (+ limit 0 config).", LS),
"C07":("Lock-step BFS from a completely filled (all rows soft-wrapped) and a blank screen: ED/EL x selectors, ECH/ICH/DCH x counts incl. 65535, DECALN, cursor on every cell and in the wrap-pending column, three pens; every cell, the exact cursor and specified wrap marks compared.",
       "Extents computed from the reported column (R2); marks after EL1/ED1 on the cursor row, ICH, DECALN adopted.", LS),
"C08":("Lock-step BFS to FIXPOINT over the pen space with every SGR code as its own sequence (both colour encodings, 7/8-bit, unknown codes) followed by a print and an erase; all ordered pairs/triples of 24 representative parameters in one vs separate sequences; all 256 indices x fg/bg x both forms; lock-step BFS over every way of blanking cells (EL/ED/ECH/ICH/DCH/IL/DL/SU/SD/LF/RI/NEL, wrap scrolls, alternate-screen entry) under three pens. Hidden pen and the printed/blanked cells (nine accessors) compared.",
       "Malformed colour forms and components > 255 unspecified.", LS+"; pen space closed to fixpoint"),
"C16":("BFS over histories mixing primary edits, entry/exit by 47/1047/1049, everything executable on the alternate screen and resizes; frame oracle (blank alt screen in current pen, text() constant, primary lines() identical or re-wrapped-not-altered, 1049 restores cursor) + lock-step run of the buffer switches against the reference terminal.",
       "Showing screen read through the verif hook; relational clause only for unlimited scrollback.", BFS+", frame/relational oracle + lock-step reference model"),
"C17":("Lock-step BFS over the four save and four restore spellings, cursor placement incl. wrap-pending, pens, DECOM/DECAWM, margins, 47/1047/1049, DECSTR, resizes; cursor, pen, modes and BOTH saved contexts (hook) compared after every transition.",
       "R6: DECSTR/RIS discard saved contexts; after a resize only 'inside the screen' is required of a restored position.", LS),
"C18":("(a) every pair of widths 1..100 and triple of widths 1..26: tab stops after the resize chain equal those of a fresh terminal (hook + HT scan); (b) lock-step BFS over CHA to boundary columns, HTS/CTC/TBC, HT/CHT/CBT counts, wrap-pending, resizes to 7 widths against a BTreeSet model.",
       "Stop in column 0 unobservable; set/clear from the wrap-pending column unspecified (pruned).", "exhaustive width-chain enumeration + "+LS),
"C09":("Exhaustive enumeration of all texts of <=k lines with line lengths 0..m over small alphabets (incl. non-ASCII, spaces), each fed whole and per char to every width 1..W x height 1..H; text() and TextUnwrapper(lines()) must equal the input lines; plus a wrapped line containing each of the 1.1 M printable Unicode scalars.",
       "Characters limited to listed alphabets; lengths bounded (cover len == k*cols for every width).", "exhaustive input enumeration against the real implementation, exact expected-value oracle"),
"C10":("All states reachable by an editing alphabet up to the depth bound are used as seeds; from each, every chain of <=2 resizes over 10 sizes; each resize judged by a relational oracle on logical lines and the cursor's logical position.",
       "Unlimited scrollback, primary screen, sizes <= 4x3.", BFS+" + exhaustive resize chains, relational oracle"),
"C11":("BFS over op histories (modes, margins, save/restore, both screens, edits, SGR, tabs, charsets, resets, 14 truncated sequences, resizes); at every distinct state dump() is fed to a fresh terminal and the pair is compared immediately, after each of 72 probes and after every feed op of the alphabet; plus every pen encoding (all 256 indices, RGB, attributes) placed in cells, the current pen and both saved contexts. Failing states are KNOWN-FINDINGs only when black-box measurements place them in one of three listed classes.",
       "Observational equivalence through the public API; classes KF-C11-a/b/c are excused as recorded in known_findings.json.", "explicit-state BFS of the implementation + differential twin (original vs restored) with probe battery"),
"C12":("All token strings of <=k tokens over 32 complete texts/sequences; for each, ALL 2^(n-1) cut patterns are covered by a cut-DAG (position x implementation fingerprint) and feed() per char; every final node compared (screen, cursor, dump, lines() when unlimited) with the single-call result.",
       "DAG merging is sound because the future of a call boundary depends only on the implementation state (fingerprint of Debug).", "explicit-state exploration of the cut-DAG of the real implementation, differential oracle"),
"C14":("Product exploration of (limited, unlimited) terminals fed the same histories (scroll regions, DL/IL at top, alt-screen excursions, per-char feeds) for limits 0,1,2,3,10,11; after every call: handed-out lines ++ lines() == unlimited lines(); TextCollector compared across limits/chunkings at every state.",
       "Caller drains Changes.scrollback; no RIS/resize (as stated).", "explicit-state BFS of a product of two real terminals, relational invariant"),
"C13":("BFS over scroll-producing feeds (drained / dropped / partially drained / per-char) and resizes for limits 0,1,2,3,9,10,11,20; bound checked after every feed_str/resize call; alternate screen must hold exactly `rows` lines.",
       "Alternate-screen status tracked syntactically; sizes tiny.", BFS+", invariant oracle after every call"),
"C15":("BFS over all functions incl. resizes; before/after view snapshots of every feed_str/resize call are diffed cell by cell against Changes.lines.",
       "Cells = char + pen (not wrap marks).", BFS+", before/after differential oracle"),
"C19":("Same seed exploration as C11; at every state ESC c is applied and the result compared with a fresh terminal (all of lines(), cursor, cursor-key mode, dump) immediately, after each probe and after every feed op; also ESC c delivered per char.",
       "Observational equivalence + dump equality.", "explicit-state BFS of the implementation + differential twin (reset vs fresh) with probe battery"),
"C20":("Every reachable seed state (all-functions alphabet) x ~9.6k (quick) / ~100k (thorough) inert inputs enumerated exhaustively by class: no changed lines, identical lines()/cursor/dump, following char handled from ground, hidden state identical; bare Parser dispatches nothing and ends in Ground, also for all 785 700 control strings with payloads of up to 4 class-representative characters.",
       "Seeds in parser ground state; payload alphabet = class representatives.", "explicit-state BFS seeds x exhaustive inert-input enumeration, before/after differential oracle"),
}
EXTRA={
"C01":" The extreme layer also holds complete colour forms with components at and beyond 255/65535; the watchdog names the call in progress.",
"C02":" Plus in-band window-manipulation sequences (size() must stay what the API was told) and geometries at and beyond 65535/65536 through resize() and the builder.",
"C04":" Plus a 12x8 screen filled with distinct letters: depth-2 BFS over (region x origin mode x cursor cell) and every REP count / text length; plus every implemented mode alone and inside lists with unimplemented numbers (mode-list-shapes).",
"C05":" Plus a 12x8 sweep: every movement function with every parameter value 0..14, CUP to every cell, from every (region x origin mode x cursor cell) placement, and HT/CHT/CBT over every single and every pair of hand-set stops; plus mode-list-shapes.",
"C06":" Plus new-line mode, and a 12x8 sweep: SU/SD/IL/DL with every count, every DECSTBM pair, from every placement.",
"C07":" Plus every mode away from its default (cursor visibility and mode flags compared after every step) and a 12x8 sweep: ICH/DCH/ECH with every count and every ED/EL selector from every cell.",
"C08":" Plus every representative parameter (and pairs) directly after 18 inputs that collect parameters but dispatch nothing (cancelled, ignored, unfinished sequences, control strings).",
"C09":" Plus every printable Unicode scalar inside a wrapped line and every line count up to 1400 (thorough 5000 and beyond).",
"C10":" Plus the same oracle from states with scroll regions, origin mode, hidden cursor, auto-wrap off and the other modes set (3x3, every single resize).",
"C12":" Plus every Unicode scalar placed in 8 parser contexts and fed whole, cut before/after/around it, per character and via feed().",
"C13":" Plus every order and repetition of the Builder calls (limit given before the size, second terminal from one builder).",
"C14":" Plus, for each limit, every count 0..4200 (thorough 9000) of lines scrolled by a single call.",
"C15":" Plus screens of 5..130 rows (thorough every height up to 136, around 192 and 256) from a screen whose neighbouring rows differ: every single-row function at every row and every region function for the region bounds.",
"C16":" The screen that should be showing is derived from the commands (a requested switch that does not happen, or an unrequested one, is reported); near-miss spellings of the switching sequences and mode lists with unimplemented numbers are part of the alphabet; plus mode-list-shapes.",
"C17":" Plus mode-list-shapes: 1048/1049 inside lists with unimplemented numbers and paired with other modes.",
"C19":" Plus the parser side: every string of <= 3 (thorough 4) parameter/sub-parameter/marker/intermediate/final bytes after each introducer, then ESC c, then 96 continuations, compared with a fresh terminal.",
"C20":" Plus shapes-and-counts: every final after parameter bytes or markers that follow an intermediate, every parameter count 0..70 in CSI and DCS headers, every payload length up to 1100 (thorough 4200).",
}
for k,v in EXTRA.items():
    t,n,tech=T[k]; T[k]=(t+v,n,tech)
EXTRA2={
"C01":" Plus save / alternate-screen / resize / restore chains over a 10-op core alphabet to depth 10 (thorough 13); 70 000 (thorough 1.1 M) calls on ONE terminal for each of six call scripts x three limits (anything that counts calls must survive more than 2^16 of them); and 17 inputs that are large in one structural dimension each (rows joined / split by a width change, lines, parameters, payloads, wrapped rows unwrapped ...) run in child processes against an UNOPTIMISED build of the library on a 2 MiB stack - a call that exhausts the stack aborts the process and is reported.",
"C02":" Plus the 10-op save / alternate-screen / resize core alphabet to depth 10 (thorough 13) and tab movement across resizes to widths around the multiples of 8.",
"C03":" Plus, end to end: every string of <= 4 (thorough 5; one more after ESC / CSI) characters over 30 class representatives through Vt::feed_str in ONE call against feed() per character (the table-checked path) - 2.4 M strings (thorough 73 M).",
"C04":" Plus an 80x24 (and 300x3; thorough also 132x43, 65x33, 257x20, 40x130) screen: layered depth-2 exploration - every placement (region x origin mode x cursor incl. wrap-pending) then every REP count / text length up to 2 x cols + 2 and the values around every power of two up to 65535, also after a mode / charset switch in the same call; and after every private mode number 0..65535 a 44-command continuation (every function class) in lock-step.",
"C05":" Plus the 80x24 layered sweep: every vertical / horizontal move with every count 0..rows+2 / 0..cols+2 and the values around every power of two up to 65535, CUP along rows and columns, from every placement.",
"C06":" Plus the 80x24 layered sweep (SU/SD/IL/DL with every count, DECSTBM pairs along both axes), and on the limit-0 configuration the rows each call hands out (Changes.scrollback) compared with the rows the model scrolled off.",
"C07":" Plus the 80x24 / 300x3 layered sweep (ICH/DCH/ECH with every count incl. 254..257), and erasing after width / height changes (8x2, 3x2; depth 4/5).",
"C08":" The blanking alphabet also prints in every way (REP, double-width, insert mode, translated charset).",
"C10":" Plus every width 2..140 (thorough 300) x every indentation of a short text (and blanks after a soft wrap), narrowed, widened, doubled and back.",
"C11":" Plus layouts on 7x3 and 20x2 (soft-wrapped row above a coloured bar, text after long blank stretches, either screen, default / cleared / hand-set tab stops; depth 4/5).",
"C12":" Plus every string of <= 4 (thorough 5) characters over 30 class representatives: one call vs one call per character vs feed() vs every single cut; and 14 kinds of long runs (string payloads with each terminator, text, digits, parameters, line feeds ...) at every length around the powers of two and ten up to 2^17 (thorough 2^20) whole, in pieces of 1000 / 4096, halved and via feed().",
"C14":" The alphabet also has text followed by enough blanks to cross the right margin (TextCollector across limits).",
"C16":" Plus excursions from and into screens with scroll regions and origin mode (2x4; thorough 2x5, 3x6; depth 5/7) in lock-step.",
"C17":" Plus far positions: save / restore (10 spelling pairs) at rows / columns around every power of two up to beyond 2^17 on screens that have them (3x65600, 65600x2, 2x131100 ...), position and pen of the next printed cell; and the 44-command continuation after every private mode number.",
"C19":" Plus 'scrollback configuration': for 7 (thorough 17) limits every history of <= 2 (3) steps over scrolling, screen switches, resets, resizes, then ESC c, then numbered lines one call each and all in one call past the retention bound, all of lines() against a fresh terminal; and heavy histories: each of 22 inputs of 40 000 (thorough up to 140 000) characters (payloads of every string kind, digits, parameters, text, line feeds, many short sequences, unterminated strings) before ESC c x each of them after it.",
"C20":" After every inert input the bare parser is given a 230-character continuation (7- and 8-bit forms of every sequence kind) and must return what a fresh parser returns; the terminal-level check feeds the same continuation and compares with the continuation alone.",
}
for k,v in EXTRA2.items():
    t,n,tech=T[k]; T[k]=(t+v,n,tech)
EXTRA3={
"C01":" Plus widths 2^k-1, 2^k, 2^k+1 up to 1025 (thorough 8193) with everything that can be done at the right edge three operations deep, and text runs of every length from every placement on 20x6.",
"C02":" Plus every height 1..200 (thorough 300) to every height as the first call / after feed() touched every row / after an ordinary call, and resizes at every scrollback fill level around the limit (reached in four ways) to ~30 targets.",
"C03":" The character-level strings also read every accessor after every character (looking does not touch).",
"C04":" Plus a 17-op print core alphabet (wrap, insert, repeat, wide / zero-width characters, typed blanks, DECSTR, inner region) to depth 6 (thorough 8), and every designator final 0x30..0x7E into G0 / G1 with every character printed and repeated under it.",
"C05":" Plus tab movement over edited stop lists on 80x24 (a default stop cleared x one or two stops set x either edge, then HT / CHT n / CBT n for every n), zero-padded parameter spellings, C0 controls inside malformed sequences and commands after ignored sequences behind the 8-bit CSI.",
"C06":" Plus a 17-op scroll core alphabet to depth 7 (thorough 9) and the scrolling alphabet through feed() and feed_str mixed on the alternate screen (lines().len() == rows after every op).",
"C07":" Plus the same 80x24 / 300x3 sweep from a sparse screen (short texts, then blanks erased under other pens), zero-width characters in the seeds.",
"C08":" Plus non-SGR sequences ending in m (markers, intermediates) and colon forms whose selector is 2 / 5 only modulo 256 in the pen fold.",
"C09":" Plus every scalar next to five kinds of non-ASCII neighbours, every ordered pair over a grid of scalars (171 k, thorough 1.6 M pairs) with the characters known to interact, one line of every length around the powers of two up to 2^21 (thorough 2^23), and text() read after every call on a growing terminal.",
"C10":" Plus histories of up to 131 073 (thorough 524 289) lines and densely filled screens up to 300x200 (thorough 1000x70) narrowed to 1 and 2 columns from five cursor places.",
"C11":" Plus a 10-op pen / origin mode / save / region core alphabet to depth 6 (thorough 8).",
"C12":" At every final node whose internal state differs from the single call's, four continuations (the other screen entered and the terminal grown, ...) are compared as well; the character-level strings also read every accessor after every character.",
"C13":" Plus tall screens (row counts around every power of two up to 10 000, thorough 70 000) x 10 limits x 4 ways of scrolling a line or two per call, the bound after every call.",
"C14":" Plus a 14-op core alphabet (scrolls, regions, screen switches through feed_str and feed(), a scroll-switch-scroll-switch in one call) to depth 6 (thorough 8), and whitespace-only wrapped lines.",
"C15":" Plus, from the filled start screen, every sequence of <= 4 (thorough 5) units 'go to row r, then ED 0 / ED 1 / wrapping text / a character / EL' as ONE call.",
"C16":" Plus a 9-op excursion core alphabet to depth 8 (thorough 10); a blank alternate screen on entry also has no soft-wrap marks.",
"C17":" Plus a 19-op save / restore core alphabet to depth 7 (thorough 9), near-miss spellings of saves / restores as must-change-nothing ops, and every implemented mode as the 5th..32nd entry of a mode list.",
"C18":" The width chains also run with a hard reset in between.",
"C19":" Plus w1 -> w2, ESC c, -> w3 against a fresh w2 resized to w3 (21 k, thorough 343 k chains) and composite continuations after ESC c.",
"C20":" Plus every scalar >= U+00A0 where a sequence expects its final byte and inside string payloads continued by a second, long call.",
}
for k,v in EXTRA3.items():
    t,n,tech=T[k]; T[k]=(t+v,n,tech)
EXTRA4={
"C01":" Plus rows of 2^k-1, 2^k, 2^k+1 cells up to 2^17 filled in six uniform ways, dumped and the dump fed back; every scalar also at the end of rows read through text(), TextUnwrapper and TextCollector.",
"C02":" Plus text of every length and REP of every count (also in insert mode, auto-wrap off, other charset) from every placement on 66x5.",
"C03":" Plus string payloads of 2^20 .. 5 000 000 (thorough 2^24+1) characters and 6000 (20 000) strings in a row for every introducer, and a fresh-parser comparison after each of ~90 sequences other terminals implement.",
"C04":" The realistic-screen sweeps also run from a sparse screen and REPeat with every count after IRM / DECAWM / charset switches; the fills have soft-wrapped rows and lowercase text.",
"C05":" DECOM homing is exact inside mode lists (also behind a screen switch after a resize).",
"C06":" Rows vacated by a scroll must be unmarked; the wide sweep also runs on 20x40; the dense fill has soft-wrapped row pairs.",
"C07":" The sparse fill has text behind gaps of untouched blanks and a blank soft-wrapped row.",
"C08":" Plus every value 0..65535 in front of ';5;1' and ';2;9;3;7;31', and the push / pop / save / restore sequences of other terminals as ops of the pen fold.",
"C10":" Plus resizes as ordinary operations in the middle of histories (18 ops, 4x4, depth 6, thorough 7), every resize transition judged; a second shape of long history (short lines, then padded columns).",
"C12":" Plus every token string inside ONE long call (behind / in front of 1100, for short strings 4200 and 17000, inert characters) against two calls.",
"C13":" Plus limits in the millions (4, thorough 9): a burst to the hard limit, line by line beyond, a shrink, a reset and again.",
"C14":" ED 0/1/3, DECALN and DECSTR are in the alphabet (functions that act on the screen must not reach what has scrolled off).",
"C16":" Plus near misses that only look like the switching modes once the parser runs out of room (a 7th sub-parameter, a 33rd parameter).",
"C17":" Plus the same mode twice in one list, ?47h in the core alphabet, and sequences of other terminals between save and restore.",
"C18":" Plus k tabs in ONE call for k around every power of two up to 2^17 (thorough 2^20).",
"C19":" Plus ESC c in the middle of one long call after an unterminated sequence.",
"C20":" Plus ~90 sequences other terminals implement as inert inputs, every ordered pair of them around each of ten implemented commands, and every unimplemented CSI shape (5314) with every first parameter 0..127 (thorough 0..1100), each with the continuation.",
}
for k,v in EXTRA4.items():
    t,n,tech=T[k]; T[k]=(t+v,n,tech)
EXTRA5={
"C01":" Plus every scroll region of heights 2..8 across every change of height (origin mode, either screen, three widths), followed by everything that scrolls, addresses or reads the region.",
"C02":" Plus one logical line of every length under every scrollback limit 0..24 (thorough 0..45), in one call, in pieces and through feed().",
"C03":" Plus N short sequences between a sequence that fills every parameter position and sequences that read positions they do not write, N around every power of two up to 2^17 (thorough 2^20); every parameter count 1..34 as a dispatch shape.",
"C04":" Plus the core alphabet with twin terminals that get the same history two ops per call (the reference model's verdict carries over to runs with fewer call boundaries).",
"C05":" Plus placements whose origin mode was put there by a restore (DECRC / SCORC / ?1048l / ?1049l), TBC 3 and widenings past new default stops on the medium screen.",
"C06":" Plus the core alphabet with twin terminals that get the same history two ops per call.",
"C07":" The edit-after-resize part runs with merged-call twins.",
"C08":" Plus a cell repainted under a second pen (every palette index against its direct-colour spelling, 24 base pens pairwise) compared with a terminal that only saw the second pen; the pen fold runs with merged-call twins (SGR, print and erase in one call).",
"C09":" Plus inner runs of spaces of every length at widths up to 520, and text() read twice with N units of output in between (N around every power of two up to 2^17, thorough 2^19).",
"C11":" Plus colour parameters with every number of colon parts 1..10 at every cut position, and a run of every length 1..20 009 (thorough 40 009) on one very wide row.",
"C13":" Plus a string left open by one call and ended by a C1 control that is followed by scrolling output, and plain runs on a 20x2 screen.",
"C16":" The lock-step part with scroll regions runs with merged-call twins.",
"C17":" Plus twin terminals that get the way back from the other screen and the restore in ONE call (and the whole history two ops per call), after LF and height-only growth.",
"C18":" Plus families of stop SETS on 132 / 200 (thorough to 520) columns - windows of cleared defaults, runs of up to 65 hand-set stops - scanned from every column with HT, CHT n and CBT n against a sorted set.",
"C20":" Plus the Changes.lines of the call that follows an inert input, and every DCS header (16 first-parameter shapes x 17 intermediates x 63 finals) with data-like payloads.",
}
for k,v in EXTRA5.items():
    t,n,tech=T[k]; T[k]=(t+v,n,tech)
claimed=sorted(T)
checks=[]
for p in props:
    i=p['id']
    if i in T:
        t,n,tech=T[i]
        checks.append({"property_id":i,"quick_cmd":f"./check {i} quick","thorough_cmd":f"./check {i} thorough","evidence_file":f"/verif/evidence/{i}.json","replay_cmd_template":"./check --replay {path}","engine":"avtmc","level_claimed":{"category":"model_checking","text":t,"design_ref":f"DESIGN.md §4 {i}"},"level_note":n,"technique":tech})
m={"version":1,"setup_cmd":"cd /verif/harness && CARGO_NET_OFFLINE=true cargo build --release --offline && cd /verif/stackcheck && CARGO_NET_OFFLINE=true cargo build --offline","hooks":{"guard":"cargo feature `verif` of the avt crate","enable":"harness/Cargo.toml depends on avt with features=[\"verif\"] (adds the read-only Vt::verif_state())","baseline_off_cmd":"cd /repo && cargo test --workspace --no-fail-fast --offline","source_commits":["69ec11d"],"add_only":True},
"engines":[{"name":"avt-stackcheck","path":"/verif/stackcheck","serves_properties":["C01"],"kind_free_text":"part of `./check C01`: 17 enumerated deep inputs, each in a child process, against an UNOPTIMISED build of avt on a 2 MiB thread stack; a child that dies from a signal (stack exhaustion) is a call that did not return normally"},{"name":"avtmc-selfcheck","path":"/verif/selfcheck","serves_properties":[],"kind_free_text":"`./check selfcheck [depth]`: stateright 0.31 parallel BFS over the same transition system; its set of reachable implementation fingerprints must equal avtmc's (guards the engine, not a property)"},{"name":"avtmc","path":"/verif/harness","serves_properties":claimed,"kind_free_text":"custom level-synchronous parallel BFS over op histories of the real avt::Vt (states rebuilt by replay, dedup on a 128-bit fingerprint of the Debug rendering), with invariant / differential / reference-model oracles"}],
"checks":checks,
"notes":"See DESIGN.md. Genuine defects repaired in /repo as fix: commits 94874da (C19), fd7d59d (C05), 26980ca (C04), 3f030b4 (C18), 2ef9fbf (C12); recorded findings in known_findings.json.",
"not_applicable":[{"property_id":p['id'],"reason":"check not built yet in this commit (planned, see DESIGN.md §4)"} for p in props if p['id'] not in T]}
json.dump(m,open('/verif/MANIFEST.json','w'),indent=1)
print("claimed",claimed)
