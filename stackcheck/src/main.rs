//! Deep structures on a small stack, in an UNOPTIMISED build of the library.
//!
//! C01 says every public call returns normally for every input and history. A call whose
//! recursion depth grows with the input (a loop rewritten as `return self.next()`, a
//! recursive join / split / trim) exhausts the stack and kills the process - no panic, no
//! unwinding, nothing `catch_unwind` could see, and nothing at all in an optimised build
//! when the compiler happens to turn the recursion into a jump. So this crate builds avt
//! with the dev profile (opt-level 0) and runs a fixed, enumerated list of inputs that are
//! large in ONE structural dimension each (rows joined by a widening, rows split by a
//! narrowing, lines scrolled, parameters, payload, wrapped rows unwrapped, ...) - each in
//! its own child process, on a thread with a 2 MiB stack (what `cargo test` and
//! `std::thread::spawn` give a user). A child that dies from a signal or exits non-zero is
//! reported with its case name; the parent prints one line per failure and exits 1.
//!
//!   avt-stackcheck list            names of all cases
//!   avt-stackcheck run <name>      run one case in this process (exit 0 = returned normally)
//!   avt-stackcheck all             every case in a child process; prints FAIL lines

use avt::util::{TextCollector, TextUnwrapper};
use avt::Vt;

fn vt(cols: usize, rows: usize, limit: Option<usize>) -> Vt {
    let mut b = Vt::builder();
    b.size(cols, rows);
    if let Some(l) = limit {
        b.scrollback_limit(l);
    }
    b.build()
}

fn touch(v: &Vt) {
    let _ = (v.size(), v.cursor(), v.view().len(), v.lines().len(), v.text().len(), v.dump().len());
    let mut u = TextUnwrapper::new();
    let mut n = 0usize;
    for l in v.lines() {
        if u.push(l).is_some() {
            n += 1;
        }
    }
    let _ = (n, u.flush());
}

type Case = (&'static str, fn());

const N: usize = 120_000;

fn cases() -> Vec<Case> {
    vec![
        ("widen-1-column-to-N: N rows joined into one", || {
            let mut v = vt(1, 2, None);
            let _ = v.feed_str(&"a".repeat(N / 2));
            let _ = v.resize(N, 2).scrollback.count();
            touch(&v);
        }),
        ("widen-2-columns-to-N-in-steps", || {
            let mut v = vt(2, 2, None);
            let _ = v.feed_str(&"ab".repeat(N / 4));
            for w in [3usize, 50, 1000, N] {
                let _ = v.resize(w, 2).scrollback.count();
            }
            touch(&v);
        }),
        ("narrow-10000-columns-to-1: one row split into 10000", || {
            // (10 000 columns: the split copies the rest of the row for every new row - cost
            // quadratic in old width / new width - so this case is kept short of a minute)
            let w = 10_000;
            let mut v = vt(w, 2, None);
            let _ = v.feed_str(&"a".repeat(w - 1));
            let _ = v.resize(1, 2).scrollback.count();
            touch(&v);
            let _ = v.resize(w, 3).scrollback.count();
            touch(&v);
        }),
        ("many-short-lines-then-width-changes", || {
            let mut v = vt(4, 3, None);
            let _ = v.feed_str(&"x\r\n".repeat(N));
            for (c, r) in [(3usize, 3usize), (9, 2), (1, 1), (4, 3)] {
                let _ = v.resize(c, r).scrollback.count();
            }
            touch(&v);
        }),
        ("many-wrapped-lines-then-width-changes", || {
            let mut v = vt(3, 3, None);
            let _ = v.feed_str(&"abcdefg\r\n".repeat(N / 4));
            for (c, r) in [(2usize, 3usize), (7, 2), (8, 2), (1, 4), (3, 3)] {
                let _ = v.resize(c, r).scrollback.count();
            }
            touch(&v);
        }),
        ("blank-rows-then-width-changes", || {
            let mut v = vt(5, 3, None);
            let _ = v.feed_str(&"\n".repeat(N));
            let _ = v.resize(2, 3).scrollback.count();
            let _ = v.resize(50, 2).scrollback.count();
            touch(&v);
        }),
        ("tall-screen-grow-and-shrink", || {
            let mut v = vt(2, N, Some(0));
            let _ = v.feed_str("ab\x1b[99999;1Hcd\n\n\n");
            let _ = v.resize(2, 2).scrollback.count();
            let _ = v.resize(3, N).scrollback.count();
            let _ = v.feed_str("\x1b[2J\x1b[1;1H\x1b[65535T\x1b[65535S\x1b[65535L\x1b[65535M");
            touch(&v);
        }),
        ("limited-scrollback-long-scroll-and-trim", || {
            for l in [0usize, 10, 1000] {
                let mut v = vt(3, 2, Some(l));
                let _ = v.feed_str(&"abcd\r\n".repeat(N / 2)).scrollback.count();
                let _ = v.resize(1, 2).scrollback.count();
                touch(&v);
            }
        }),
        ("text-collector-long-wrapped-line", || {
            let mut t = TextCollector::new(vt(1, 2, Some(0)));
            let mut n = 0usize;
            for _ in 0..40 {
                n += t.feed_str(&"a".repeat(N / 40)).count();
            }
            n += t.resize(7, 2).count();
            n += t.flush().len();
            let _ = n;
        }),
        ("csi-many-parameters", || {
            let mut v = vt(4, 2, None);
            let _ = v.feed_str(&format!("\x1b[{}m", "1;".repeat(N)));
            let _ = v.feed_str(&format!("\x1b[{}m", "38:2:".repeat(N)));
            let _ = v.feed_str(&format!("\x1b[?{}h", "6;7;".repeat(N)));
            touch(&v);
        }),
        ("csi-many-digits-and-intermediates", || {
            let mut v = vt(4, 2, None);
            let _ = v.feed_str(&format!("\x1b[{}C", "9".repeat(N)));
            let _ = v.feed_str(&format!("\x1b[1{}p", " ".repeat(N)));
            let _ = v.feed_str(&format!("\x1b{}0", "(".repeat(N)));
            touch(&v);
        }),
        ("string-payloads", || {
            let mut v = vt(4, 2, None);
            for (a, b) in [("\x1b]0;", "\x07"), ("\x1bP1$q", "\x1b\\"), ("\x1bX", "\u{9c}"), ("\x1b_", "\x1b\\")] {
                let _ = v.feed_str(&format!("{}{}{}", a, "p".repeat(4 * N), b));
            }
            touch(&v);
        }),
        ("escape-characters-in-a-row", || {
            let mut v = vt(4, 2, None);
            let _ = v.feed_str(&"\x1b".repeat(N));
            let _ = v.feed_str(&"\x1b[".repeat(N));
            let _ = v.feed_str(&"\x1b]\x1b".repeat(N));
            let _ = v.feed_str(&"\u{9b}\x18".repeat(N));
            touch(&v);
        }),
        ("repeat-and-insert-counts", || {
            let mut v = vt(5, 3, None);
            let _ = v.feed_str("a\x1b[65535b\x1b[65535@\x1b[65535P\x1b[65535X\x1b[65535L\x1b[65535M\x1b[65535S\x1b[65535T\x1b[65535I\x1b[65535Z");
            touch(&v);
        }),
        ("tab-stops-on-a-wide-screen", || {
            let mut v = vt(N, 1, Some(0));
            let _ = v.feed_str(&"\t".repeat(N / 8 + 5));
            let _ = v.feed_str("\x1b[3g\x1b[1G");
            let _ = v.feed_str(&"\x1b[C\x1bH".repeat(2000));
            let _ = v.resize(N * 2, 1).scrollback.count();
            let _ = v.resize(9, 1).scrollback.count();
            touch(&v);
        }),
        ("pen-changes-in-every-cell-then-dump", || {
            let mut v = vt(N / 4, 2, Some(0));
            let mut s = String::new();
            for i in 0..N / 4 {
                s.push_str(if i % 2 == 0 { "\x1b[31ma" } else { "\x1b[32;1mb" });
            }
            let _ = v.feed_str(&s);
            let d = v.dump();
            let mut w = vt(N / 4, 2, Some(0));
            let _ = w.feed_str(&d);
            touch(&w);
        }),
        ("alternate-screen-switches-with-resizes", || {
            let mut v = vt(3, 3, None);
            let _ = v.feed_str(&"abcdefg\r\n".repeat(N / 8));
            for i in 0..200usize {
                let _ = v.feed_str(if i % 2 == 0 { "\x1b[?1049h" } else { "\x1b[?1049l" });
                let _ = v.resize(2 + i % 5, 2 + i % 3).scrollback.count();
            }
            touch(&v);
        }),
    ]
}

fn main() {
    let args: Vec<String> = std::env::args().collect();
    let all = cases();
    match args.get(1).map(|s| s.as_str()) {
        Some("list") => {
            for (n, _) in &all {
                println!("{}", n);
            }
        }
        Some("run") => {
            let name = args.get(2).expect("case name");
            let (_, f) = all.iter().find(|(n, _)| n == name).expect("unknown case");
            let f = *f;
            // the stack a spawned thread / a `cargo test` test gets
            let h = std::thread::Builder::new().stack_size(2 * 1024 * 1024).spawn(f).expect("spawn");
            match h.join() {
                Ok(()) => std::process::exit(0),
                Err(_) => std::process::exit(101),
            }
        }
        Some("all") => {
            let exe = std::env::current_exe().expect("own path");
            let mut failed = 0;
            for (n, _) in &all {
                let t0 = std::time::Instant::now();
                let out = std::process::Command::new(&exe).arg("run").arg(n).output().expect("spawn child");
                let secs = t0.elapsed().as_secs_f64();
                if out.status.success() {
                    println!("ok {:.1}s {}", secs, n);
                } else {
                    failed += 1;
                    let err = String::from_utf8_lossy(&out.stderr);
                    let last: String = err.lines().rev().take(3).collect::<Vec<_>>().into_iter().rev().collect::<Vec<_>>().join(" / ");
                    println!("FAIL {:.1}s {} :: {:?} :: {}", secs, n, out.status, last);
                }
            }
            println!("cases {} failed {}", all.len(), failed);
            std::process::exit(if failed > 0 { 1 } else { 0 });
        }
        _ => {
            eprintln!("usage: avt-stackcheck list | run <case> | all");
            std::process::exit(2);
        }
    }
}
