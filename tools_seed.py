#!/usr/bin/env python3
"""Validate a seeded mutant produced by a sub-agent and run checks against it.
usage: tools_seed.py <Cxx> <k> [check ids...]   (default: the property's own check)
Steps: (1) in the scratch worktree /tmp/wt-<Cxx>: demo passes on the clean tree; with the patch the existing
tests pass and the demo fails; (2) apply the patch to /repo, run the checks, undo; (3) store under /verif/seeded/."""
import subprocess, sys, json, os, shutil, time
def sh(c, **kw): return subprocess.run(c, shell=True, capture_output=True, text=True, **kw)
pid, k = sys.argv[1], sys.argv[2]
checks = sys.argv[3:] or [pid]
wt = os.environ.get('SEED_WT', '/tmp/wt-{pid}').replace('{pid}', pid); md = f'{wt}/MUTANTS/{k}'
name = os.environ.get('SEED_NAME', f'{pid}-{k}')
env = f'CARGO_TARGET_DIR={wt}/target CARGO_NET_OFFLINE=true'
assert os.path.exists(f'{md}/patch.diff'), 'no patch'
sh(f'git -C {wt} checkout -- . ; rm -f {wt}/tests/demo.rs')
shutil.copy(f'{md}/demo.rs', f'{wt}/tests/demo.rs')
pre = {}
if os.environ.get('SEED_TRUST_TRIAGE') and os.path.exists('/tmp/triage.jsonl'):
    for l in open('/tmp/triage.jsonl'):
        d = json.loads(l)
        if d.get('seed') == f'{pid}-{k}' and 'demo_clean_ok' in d: pre = d
r = sh(f'cd {wt} && {env} cargo test --offline --test demo 2>&1') if not pre else None
clean_demo = pre.get('demo_clean_ok') if pre else (r.returncode == 0 and 'test result: ok' in r.stdout)
a = sh(f'git -C {wt} apply {md}/patch.diff')
assert a.returncode == 0, a.stderr
if pre:
    suite, mut_demo_fails = pre.get('suite_ok'), pre.get('demo_fails')
else:
    r = sh(f'cd {wt} && {env} cargo test --offline --lib --test integration_test 2>&1 | grep -E "^test result|error"')
    suite = r.stdout.count('test result: ok') >= 2 and 'FAILED' not in r.stdout and 'error' not in r.stdout
    # (a demonstration that kills the test process - stack exhaustion - fails, too)
    r = sh(f'cd {wt} && {env} cargo test --offline --test demo 2>&1')
    mut_demo_fails = r.returncode != 0 and ('FAILED' in r.stdout or 'overflowed its stack' in r.stdout or 'SIGABRT' in r.stdout or 'SIGSEGV' in r.stdout)
sh(f'git -C {wt} checkout -- . ; rm -f {wt}/tests/demo.rs')
print(f'{name}: demo passes on clean tree={clean_demo} existing suite passes with mutant={suite} demo fails with mutant={mut_demo_fails}', flush=True)
results = {}
if clean_demo and suite and mut_demo_fails:
    assert sh('git -C /repo status --porcelain').stdout.strip() == '', '/repo not clean'
    a = sh(f'git -C /repo apply {md}/patch.diff'); assert a.returncode == 0, a.stderr
    try:
        for c in checks:
            t0 = time.time()
            r = sh(f'cd /verif && ./check {c} quick')
            v = [l for l in r.stdout.splitlines() if l.startswith('VIOLATION')]
            first = ''
            if v:
                path = v[0].split('replay=')[1]
                try:
                    j = json.load(open(path)); first = (j.get('oracle', ''), [o.get('abstract') for o in j.get('ops', [])] or j.get('input') or j.get('widths') or j.get('sequence'), str(j.get('observed'))[:200])
                except Exception as e: first = str(e)
            results[c] = {'exit': r.returncode, 'violation_lines': len(v), 'first': first, 'wall_s': round(time.time() - t0, 1)}
            print('   check', c, results[c], flush=True)
    finally:
        sh('git -C /repo checkout -- .'); sh('rm -rf /verif/replays')
    dst = f'/verif/seeded/{name}'; os.makedirs(dst, exist_ok=True)
    for f in ['patch.diff', 'demo.rs', 'README.md']: shutil.copy(f'{md}/{f}', f'{dst}/{f}')
    meta = {'breaks_property': pid, 'source': 'independent sub-agent given only the property text and a scratch worktree',
            'needs_to_manifest': 'see README.md', 'validated': {'demo_passes_on_clean_tree': clean_demo, 'existing_tests_pass_with_mutant': suite, 'demo_fails_with_mutant': mut_demo_fails},
            'ran': [f'./check {c} quick' for c in checks], 'results': results,
            'detected_by_own_check': results.get(pid, {}).get('exit') == 1}
    old = {}
    if os.path.exists(f'{dst}/meta.json'):
        old = json.load(open(f'{dst}/meta.json')).get('results', {})
    old.update(results); meta['results'] = old; meta['ran'] = [f'./check {c} quick' for c in old]
    meta['detected_by_own_check'] = old.get(pid, {}).get('exit') == 1
    json.dump(meta, open(f'{dst}/meta.json', 'w'), indent=1)
