#!/usr/bin/env python3
"""Behaviour-preserving refactors (from sub-agents): apply to /repo, run EVERY quick check, expect exit 0 everywhere.
usage: tools_refactor.py <name> <dir with patch.diff and README.md>"""
import subprocess, sys, json, os, shutil, time
def sh(c): return subprocess.run(c, shell=True, capture_output=True, text=True)
name, src = sys.argv[1], sys.argv[2]
assert sh('git -C /repo status --porcelain --untracked-files=no').stdout.strip() == '', '/repo not clean'
a = sh(f'git -C /repo apply {src}/patch.diff'); assert a.returncode == 0, a.stderr
res = {}
try:
    t = sh('cd /repo && cargo test --workspace --no-fail-fast --offline 2>&1 | grep -E "^test result"')
    tests_ok = 'FAILED' not in t.stdout and t.stdout.count('ok.') >= 2
    for i in range(1, 21):
        c = f'C{i:02d}'; t0 = time.time()
        r = sh(f'cd /verif && ./check {c} quick')
        v = [l for l in r.stdout.splitlines() if l.startswith('VIOLATION')]
        res[c] = {'exit': r.returncode, 'violations': len(v), 'wall_s': round(time.time() - t0, 1)}
        if r.returncode != 0:
            res[c]['tail'] = (r.stdout + r.stderr)[-600:]
        print(name, c, res[c]['exit'], res[c]['wall_s'], flush=True)
finally:
    sh('git -C /repo checkout -- .'); sh('rm -rf /verif/replays /repo/proptest-regressions')
dst = f'/verif/seeded/refactors/{name}'; os.makedirs(dst, exist_ok=True)
for f in ['patch.diff', 'README.md']: shutil.copy(f'{src}/{f}', f'{dst}/{f}')
json.dump({'kind': 'behaviour-preserving refactor (the checks must stay silent)', 'repo_tests_pass': tests_ok, 'results': res,
           'all_checks_silent': all(v['exit'] == 0 for v in res.values())}, open(f'{dst}/meta.json', 'w'), indent=1)
print(name, 'ALL SILENT' if all(v['exit'] == 0 for v in res.values()) else 'ALARMS: ' + str([c for c, v in res.items() if v['exit'] != 0]))
