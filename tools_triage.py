#!/usr/bin/env python3
"""Triage of freshly seeded changes without touching /repo or /verif/target.
usage: tools_triage.py Cxx:k[:check,check...] ...
For each: in the sub-agent's scratch worktree /tmp/wt-Cxx (1) the demonstration passes on the clean tree,
(2) with the patch the pinned suite passes and the demonstration fails; then (3) a copy of the CURRENT
/verif/harness sources is built against that worktree (patch applied) in /tmp/hx-Cxx and the quick check(s)
are run there (AVTMC_OUT=/tmp/hx-Cxx/out). Prints one JSON line per seed and appends it to /tmp/triage.jsonl.
The recorded run for seeded/<id>/meta.json is still made by tools_seed.py through /repo."""
import subprocess, sys, json, os, shutil, time, glob
def sh(c, **kw): return subprocess.run(c, shell=True, capture_output=True, text=True, **kw)
for arg in sys.argv[1:]:
    parts = arg.split(':')
    pid, k = parts[0], parts[1]
    checks = parts[2].split(',') if len(parts) > 2 else [pid]
    wt = os.environ.get('TRIAGE_WT', '/tmp/wt-{pid}').replace('{pid}', pid); md = f'{wt}/MUTANTS/{k}'; hx = f'/tmp/hx-{pid}'
    env = f'CARGO_TARGET_DIR={wt}/target CARGO_NET_OFFLINE=true'
    res = {'seed': f'{pid}-{k}'}
    if not os.path.exists(f'{md}/patch.diff'):
        res['error'] = 'no patch'; print(json.dumps(res), flush=True); continue
    sh(f'git -C {wt} checkout -- . ; rm -f {wt}/tests/demo.rs')
    shutil.copy(f'{md}/demo.rs', f'{wt}/tests/demo.rs')
    r = sh(f'cd {wt} && {env} cargo test --offline --test demo 2>&1 | grep -E "^test result"')
    res['demo_clean_ok'] = ' 0 failed' in r.stdout and 'ok' in r.stdout
    a = sh(f'git -C {wt} apply {md}/patch.diff')
    if a.returncode != 0:
        res['error'] = 'patch does not apply: ' + a.stderr[:200]; print(json.dumps(res), flush=True); continue
    r = sh(f'cd {wt} && {env} cargo test --offline --lib --test integration_test 2>&1 | grep -E "^test result|^error"')
    res['suite_ok'] = r.stdout.count('test result: ok') >= 2 and 'FAILED' not in r.stdout and 'error' not in r.stdout
    r = sh(f'cd {wt} && {env} cargo test --offline --test demo 2>&1')
    res['demo_fails'] = r.returncode != 0 and ('FAILED' in r.stdout or 'overflowed its stack' in r.stdout or 'SIGABRT' in r.stdout or 'SIGSEGV' in r.stdout)
    os.remove(f'{wt}/tests/demo.rs')
    # harness copy against the patched worktree
    os.makedirs(hx, exist_ok=True)
    H = os.environ.get('TRIAGE_HARNESS', '/verif/harness')
    sh(f'rm -rf {hx}/src {hx}/out; cp -r {H}/src {H}/Cargo.toml {H}/Cargo.lock {hx}/')
    s = open(f'{hx}/Cargo.toml').read().replace('path = "/repo"', f'path = "{wt}"'); open(f'{hx}/Cargo.toml', 'w').write(s)
    os.makedirs(f'{hx}/.cargo', exist_ok=True); open(f'{hx}/.cargo/config.toml', 'w').write(f'[net]\noffline = true\n[build]\ntarget-dir = "{hx}/target"\n')
    b = sh(f'cd {hx} && cargo build --release --offline 2>&1 | tail -5')
    scenv = ''
    if 'C01' in checks:
        sc = f'{hx}/stackcheck'
        sh(f'rm -rf {sc}; mkdir -p {sc}/.cargo; cp -r /verif/stackcheck/src /verif/stackcheck/Cargo.toml /verif/stackcheck/Cargo.lock {sc}/')
        t = open(f'{sc}/Cargo.toml').read().replace('path = "/repo"', f'path = "{wt}"'); open(f'{sc}/Cargo.toml', 'w').write(t)
        open(f'{sc}/.cargo/config.toml', 'w').write(f'[net]\noffline = true\n[build]\ntarget-dir = "{hx}/target-stackcheck"\n')
        sh(f'cd {sc} && cargo build --offline 2>&1 | tail -3')
        scenv = f'AVTMC_STACKCHECK={hx}/target-stackcheck/debug/avt-stackcheck '
    if not os.path.exists(f'{hx}/target/release/avtmc') or 'error' in b.stdout:
        res['error'] = 'harness build: ' + b.stdout[-400:]
    else:
        res['checks'] = {}
        for c in checks:
            t0 = time.time()
            r = sh(f'cd {hx} && {scenv}AVTMC_OUT={hx}/out {hx}/target/release/avtmc check {c} quick')
            v = [l for l in r.stdout.splitlines() if l.startswith('VIOLATION')]
            row = {'exit': r.returncode, 'violation_properties': sorted(set(l.split()[1].split('=')[1] for l in v)), 'wall_s': round(time.time() - t0, 1)}
            fs = sorted(glob.glob(f'{hx}/out/replays/*.json'))
            if fs:
                d = json.load(open(fs[0]))
                row['first'] = {'part': d.get('part'), 'oracle': d.get('oracle'), 'observed': str(d.get('observed'))[:300], 'ops': [o.get('text') for o in d.get('ops', [])] or d.get('input'), 'config': d.get('config')}
            if r.returncode not in (0, 1):
                row['stderr'] = r.stderr[-500:]
            sh(f'rm -rf {hx}/out/replays')
            res['checks'][c] = row
    sh(f'git -C {wt} checkout -- .')
    print(json.dumps(res), flush=True)
    open(os.environ.get('TRIAGE_LOG', '/tmp/triage.jsonl'), 'a').write(json.dumps(res) + '\n')
